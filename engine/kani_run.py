#!/usr/bin/env python3
"""Run Kani harnesses on a scratch copy of /repo's working tree (+ /verif/kani/overlay).

Scratch lives in /verif/work/kani (git-ignored); it is re-synchronised from /repo on
every run (rsync --delete, target dir kept for incremental builds) under a file lock.
"""
import fcntl
import json
import os
import re
import resource
import shutil
import subprocess
import sys
import time

VERIF = os.path.dirname(os.path.dirname(os.path.abspath(__file__)))
WORK = os.environ.get('VERIF_WORK', os.path.join(VERIF, 'work'))
SCRATCH = os.path.join(WORK, 'kani')
OVERLAY = os.path.join(VERIF, 'kani', 'overlay')

PKG_ARGS = {
    'mls-rs': ['--no-default-features', '--features', 'std,rfc_compliant,tree_index,fast_serialize'],
    'mls-rs-codec': [],
    'mls-rs-core': [],
}
KANI_FLAGS = ['-Z', 'function-contracts', '-Z', 'stubbing']


class Lock:
    def __init__(self, path):
        os.makedirs(os.path.dirname(path), exist_ok=True)
        self.f = open(path, 'w')

    def __enter__(self):
        fcntl.flock(self.f, fcntl.LOCK_EX)
        return self

    def __exit__(self, *a):
        fcntl.flock(self.f, fcntl.LOCK_UN)
        self.f.close()


def sync(repo):
    os.makedirs(SCRATCH, exist_ok=True)
    dst = os.path.join(SCRATCH, 'repo')
    subprocess.run(['rsync', '-a', '--delete', '--exclude', '/target', '--exclude', '.git',
                    repo.rstrip('/') + '/', dst + '/'], check=True)
    # overlay: verification-only modules (cfg(kani)), never part of /repo's build
    subprocess.run(['rsync', '-a', OVERLAY.rstrip('/') + '/', dst + '/'], check=True)
    cfg = os.path.join(dst, '.cargo')
    os.makedirs(cfg, exist_ok=True)
    with open(os.path.join(cfg, 'config.toml'), 'w') as f:
        f.write('[net]\noffline = true\n')
    return dst


def _limits(mem_gb):
    def f():
        lim = int(mem_gb * (1 << 30))
        resource.setrlimit(resource.RLIMIT_AS, (lim, lim))
        os.setsid()
    return f


def parse_output(out, harnesses):
    """-> {harness: {'status': 'pass'|'fail'|'undecided', 'detail': str, 'time_s': float}}"""
    res = {}
    cur = {}
    blocks = {}
    order = []
    tid = None
    for ln in out.split('\n'):
        m = re.match(r'(?:Thread (\d+): )?Checking harness (\S+?)\.\.\.', ln)
        if m:
            tid = m.group(1) or '0'
            cur[tid] = m.group(2)
            blocks[m.group(2)] = []
            order.append(m.group(2))
            continue
        m = re.match(r'Thread (\d+):\s*(.*)$', ln)
        if m:
            tid = m.group(1)
            if tid in cur:
                blocks[cur[tid]].append(m.group(2))
            continue
        if tid is not None and tid in cur:
            blocks[cur[tid]].append(ln)
    for h, lines in blocks.items():
        txt = '\n'.join(lines)
        short = h.split('::')[-1]
        tm = re.search(r'Verification Time: ([0-9.]+)s', txt)
        t = float(tm.group(1)) if tm else None
        if 'VERIFICATION:- SUCCESSFUL' in txt:
            st, detail = 'pass', ''
            m = re.search(r'\*\* (\d+) of (\d+) failed', txt)
            checks = int(m.group(2)) if m else None
        else:
            checks = None
            if re.search(r'out of memory|CBMC failed|timed out|CBMC timed out|Killed|signal', txt) and \
                    'Failed Checks' not in txt:
                st, detail = 'undecided', 'tool limit: ' + ' '.join(txt.split())[:300]
            elif 'VERIFICATION:- FAILED' in txt:
                fc = re.findall(r'Failed Checks: (.*)', txt)
                st, detail = 'fail', '; '.join(fc)[:1500]
                if not fc:
                    st, detail = 'undecided', 'FAILED without failed checks: ' + ' '.join(txt.split())[:300]
                elif any(re.search(r'Kani does not support|is not currently supported by Kani|unsupported_construct', c) for c in fc):
                    # Kani hit a construct it cannot model (e.g. zeroize's volatile writes into a Vec's spare
                    # capacity): every other failed check of this run is a consequence of the havocked pointer -
                    # a tool limit, never an alarm
                    st, detail = 'undecided', 'tool limit (unsupported construct): ' + '; '.join(fc)[:600]
            else:
                st, detail = 'undecided', 'no verdict: ' + ' '.join(txt.split())[-300:]
        res[short] = {'status': st, 'detail': detail, 'time_s': t, 'full_name': h, 'checks': checks}
    return res


def run(repo, package, harnesses, jobs=8, timeout=1500, mem_gb=40, extra=(), exact=True):
    """Run the listed harnesses of `package`.  Returns dict(results, build_ok, log, wall_s, cmd)."""
    t0 = time.time()
    with Lock(os.path.join(WORK, 'kani.lock')):
        dst = sync(repo)
        cmd = ['cargo', 'kani'] + PKG_ARGS.get(package, []) + KANI_FLAGS + \
              ['-j', str(jobs), '--output-format', 'terse']
        if exact:
            cmd += ['--exact']
        for h in harnesses:
            cmd += ['--harness', h]
        cmd += list(extra)
        env = dict(os.environ)
        env['CARGO_NET_OFFLINE'] = 'true'
        env['CARGO_TARGET_DIR'] = os.path.join(SCRATCH, 'target')
        env.pop('RUSTUP_TOOLCHAIN', None)
        try:
            p = subprocess.Popen(cmd, cwd=os.path.join(dst, package), env=env, stdout=subprocess.PIPE,
                                 stderr=subprocess.STDOUT, text=True, preexec_fn=_limits(mem_gb))
            try:
                out, _ = p.communicate(timeout=timeout)
                rc = p.returncode
                timed_out = False
            except subprocess.TimeoutExpired:
                os.killpg(p.pid, 9)
                out, _ = p.communicate()
                rc = None
                timed_out = True
        except Exception as e:   # tool crash
            out, rc, timed_out = f'launch failure: {e}', None, False
    results = parse_output(out, harnesses)
    build_ok = ('Checking harness' in out) or ('Manual Harness Summary' in out)
    if not build_ok:
        # compile error in the scratch copy (e.g. the change under test altered a signature)
        pass
    for h in harnesses:
        short = h.split('::')[-1]
        if short not in results:
            why = 'timeout' if timed_out else ('build failed' if not build_ok else 'harness not run')
            results[short] = {'status': 'undecided', 'detail': why, 'time_s': None, 'full_name': h, 'checks': None}
        elif timed_out and results[short]['status'] == 'undecided':
            results[short]['detail'] = 'timeout; ' + results[short]['detail']
    return {'results': results, 'build_ok': build_ok, 'rc': rc, 'log': out, 'wall_s': time.time() - t0,
            'cmd': ' '.join(cmd), 'timed_out': timed_out}


def playback(repo, package, harness, timeout=1500):
    """Obtain a concrete counterexample for a failing harness and replay it on the real code.
    Returns dict(test_src, values, replay_output, reproduced: bool)."""
    with Lock(os.path.join(WORK, 'kani.lock')):
        dst = os.path.join(SCRATCH, 'repo')   # already synced by run()
        env = dict(os.environ)
        env['CARGO_NET_OFFLINE'] = 'true'
        env['CARGO_TARGET_DIR'] = os.path.join(SCRATCH, 'target')
        env.pop('RUSTUP_TOOLCHAIN', None)
        cmd = ['cargo', 'kani'] + PKG_ARGS.get(package, []) + KANI_FLAGS + \
              ['-Z', 'concrete-playback', '--concrete-playback=print', '--exact', '--harness', harness]
        try:
            p = subprocess.run(cmd, cwd=os.path.join(dst, package), env=env, capture_output=True,
                               text=True, timeout=timeout)
        except subprocess.TimeoutExpired:
            return {'reproduced': False, 'why': 'timeout generating counterexample'}
        out = p.stdout + p.stderr
        m = re.search(r'```\s*\n(/// Test generated.*?)```', out, re.S) or \
            re.search(r'(#\[test\]\s*fn kani_concrete_playback.*?\n\}\n)', out, re.S)
        if not m:
            return {'reproduced': False, 'why': 'kani printed no concrete playback test', 'log': out[-3000:]}
        test_src = m.group(1)
        tn = re.search(r'fn (kani_concrete_playback_\w+)', test_src)
        values = re.findall(r'//\s*(-?\d+[a-zA-Z0-9_]*)\s*\n\s*vec!\[([^\]]*)\]', test_src)
        # append the test to the module that holds the harness
        short = harness.split('::')[-1]
        target_file = None
        for root, _, files in os.walk(os.path.join(dst, package, 'src')):
            for fn in files:
                if fn.endswith('.rs'):
                    pth = os.path.join(root, fn)
                    with open(pth) as f:
                        if re.search(r'fn ' + re.escape(short) + r'\s*\(', f.read()):
                            target_file = pth
        if not target_file or not tn:
            return {'reproduced': False, 'why': 'cannot locate harness module', 'test_src': test_src}
        with open(target_file, 'a') as f:
            f.write('\n' + test_src + '\n')
        cmd2 = ['cargo', 'kani', 'playback'] + PKG_ARGS.get(package, []) + \
               ['-Z', 'concrete-playback', '--lib', '--', tn.group(1)]
        try:
            p2 = subprocess.run(cmd2, cwd=os.path.join(dst, package), env=env, capture_output=True,
                                text=True, timeout=timeout)
            out2 = p2.stdout + p2.stderr
        except subprocess.TimeoutExpired:
            out2 = 'timeout'
            p2 = None
        reproduced = bool(p2 and p2.returncode != 0 and re.search(r'panicked at|test result: FAILED', out2))
        keep = [ln for ln in out2.split('\n') if re.search(r'panicked|^test |test result|assertion|left:|right:|error(\[|:)', ln)]
        return {'reproduced': reproduced, 'test_src': test_src, 'values': values,
                'replay_output': '\n'.join(keep)[-4000:] or out2[-2000:], 'replay_cmd': ' '.join(cmd2)}


def warm(repo='/repo'):
    """compile every package that has harnesses once (dependencies are the slow part)"""
    for pkg, h in (('mls-rs', 'tree_kem::math::verif_kani::c20_root'), ('mls-rs-codec', 'verif_kani::c12_varint_roundtrip')):
        r = run(repo, pkg, [h], jobs=2, timeout=3000)
        print('warm', pkg, 'build_ok' if r['build_ok'] else 'BUILD FAILED', round(r['wall_s']), 's')


if __name__ == '__main__':
    if sys.argv[1] == '--warm':
        warm()
        sys.exit(0)
    pkg = sys.argv[1]
    hs = sys.argv[2:]
    r = run('/repo', pkg, hs, exact=False)
    print(r['cmd'])
    for k, v in sorted(r['results'].items()):
        print(k, v['status'], v['time_s'], v['detail'][:200])
    print('wall', r['wall_s'])
    if not r['build_ok']:
        print(r['log'][-3000:])
