#!/usr/bin/env python3
"""Mechanical extractor: /repo source  ->  single-file Verus unit.

See DESIGN.md section 2.2.  Steps E1..E6 and rewrite rules R1..R4 are the only
transformations applied to executable text; every one is logged.

Public entry:  build_unit(vc_path, repo_root) -> UnitResult
"""
import hashlib
import json
import os
import re
import sys

sys.path.insert(0, os.path.dirname(os.path.abspath(__file__)))
from rustlex import lex, match_delims, is_p, is_id, norm, LexError, Tok  # noqa: E402

GB = '/*@g{*/'   # ghost-begin marker
GE = '/*@}g*/'   # ghost-end marker

DEFAULT_FEATURES = {
    # mls-rs default feature set, transitively expanded (mls-rs/Cargo.toml)
    'std', 'rayon', 'rfc_compliant', 'tree_index', 'fast_serialize',
    'private_message', 'custom_proposal', 'out_of_order', 'psk', 'x509',
    'prior_epoch', 'by_ref_proposal',
}


class ExtractError(Exception):
    """Lost anchor / out-of-subset: the unit is UNDECIDED (exit 2), never an alarm."""


# --------------------------------------------------------------------------- cfg
def eval_cfg(toks, features):
    """toks: tokens inside cfg( ... ).  Returns bool."""
    pos = [0]

    def peek():
        return toks[pos[0]] if pos[0] < len(toks) else None

    def eat():
        t = toks[pos[0]]
        pos[0] += 1
        return t

    def pred():
        t = eat()
        if t.kind != 'ident':
            raise ExtractError(f'cfg: unexpected {t}')
        name = t.text
        nx = peek()
        if name in ('all', 'any', 'not') and nx is not None and is_p(nx, '('):
            eat()
            args = []
            while not is_p(peek(), ')'):
                args.append(pred())
                if is_p(peek(), ','):
                    eat()
            eat()
            if name == 'all':
                return all(args)
            if name == 'any':
                return any(args)
            if len(args) != 1:
                raise ExtractError('cfg: not() arity')
            return not args[0]
        if nx is not None and is_p(nx, '='):
            eat()
            v = eat()
            val = v.text.strip('"')
            if name == 'feature':
                return val in features
            if name == 'target_arch':
                return val == 'x86_64'
            if name == 'target_has_atomic':
                return True
            raise ExtractError(f'cfg: unknown key {name}')
        # bare flag
        if name in ('test', 'mls_build_async', 'coverage_nightly', 'kani', 'docsrs',
                    'fuzzing', 'sync', 'ios'):
            return False
        if name in ('debug_assertions',):
            return True
        raise ExtractError(f'cfg: unknown flag {name}')

    r = pred()
    return r


# ----------------------------------------------------------------- source access
class SourceFile:
    _cache = {}

    def __init__(self, path):
        self.path = path
        with open(path) as f:
            self.text = f.read()
        try:
            self.toks = lex(self.text)
            self.pairs = match_delims(self.toks)
        except LexError as e:
            raise ExtractError(f'{path}: {e}')
        # parent delimiter of each token
        self.parent = [None] * len(self.toks)
        stack = []
        for i, t in enumerate(self.toks):
            if t.kind == 'punct' and t.text in ')]}':
                stack.pop()
            self.parent[i] = stack[-1] if stack else None
            if t.kind == 'punct' and t.text in '([{':
                stack.append(i)

    @classmethod
    def get(cls, path):
        if path not in cls._cache:
            cls._cache[path] = SourceFile(path)
        return cls._cache[path]

    @classmethod
    def from_text(cls, path, text):
        """a source file whose text was rewritten in memory (R13: a closure's expression body wrapped in braces)"""
        sf = cls.__new__(cls)
        sf.path = path
        sf.text = text
        try:
            sf.toks = lex(text)
            sf.pairs = match_delims(sf.toks)
        except LexError as e:
            raise ExtractError(f'{path}: {e}')
        sf.parent = [None] * len(sf.toks)
        stack = []
        for i, t in enumerate(sf.toks):
            if t.kind == 'punct' and t.text in ')]}':
                stack.pop()
            sf.parent[i] = stack[-1] if stack else None
            if t.kind == 'punct' and t.text in '([{':
                stack.append(i)
        return sf

    def line_of(self, off):
        return self.text.count('\n', 0, off) + 1


def attr_span(sf, i):
    """if toks[i] starts an outer attribute `#[...]`, return index after it, else None."""
    T = sf.toks
    if i + 1 < len(T) and is_p(T[i], '#') and is_p(T[i + 1], '['):
        return sf.pairs[i + 1] + 1
    return None


def attr_cfg_value(sf, i, features):
    """For attribute at i: returns True/False if it is #[cfg(..)], else None."""
    T = sf.toks
    if is_id(T[i + 2], 'cfg') and is_p(T[i + 3], '('):
        close = sf.pairs[i + 3]
        return eval_cfg(T[i + 4:close], features)
    return None


def find_block_open(sf, i, limit):
    """first `{` at the same nesting level as token i, searching forward."""
    T = sf.toks
    j = i
    while j < limit:
        t = T[j]
        if t.kind == 'punct' and t.text in '([':
            j = sf.pairs[j] + 1
            continue
        if is_p(t, '{'):
            return j
        j += 1
    raise ExtractError(f'no block after token {T[i]}')


def target_end(sf, i):
    """End (exclusive token index) of the syntactic thing starting at token i that an
    outer attribute in front of i applies to.  Includes a trailing `,` / `;`."""
    T = sf.toks
    par = sf.parent[i]
    close = sf.pairs[par] if par is not None else len(T)
    encl = T[par].text if par is not None else '{'

    def comma_delimited():
        j = i
        while j < close:
            t = T[j]
            if t.kind == 'punct' and t.text in '([{':
                j = sf.pairs[j] + 1
                continue
            if is_p(t, ','):
                return j + 1
            j += 1
        return close

    if encl in '([':
        return comma_delimited()
    t0 = T[i]
    # item inside impl/mod/file or statement-level item
    k = i
    while k < close and (is_id(T[k], 'pub') or is_id(T[k], 'async') or is_id(T[k], 'const')
                         or is_id(T[k], 'unsafe') or is_id(T[k], 'default')
                         or (is_p(T[k], '(') and is_id(T[k - 1], 'pub'))):
        k = sf.pairs[k] + 1 if is_p(T[k], '(') else k + 1
    if k < close and T[k].kind == 'ident' and T[k].text in (
            'fn', 'impl', 'mod', 'struct', 'enum', 'trait', 'use', 'type', 'static', 'extern'):
        if T[k].text in ('use', 'type', 'static'):
            j = k
            while not is_p(T[j], ';'):
                j = sf.pairs[j] + 1 if (T[j].kind == 'punct' and T[j].text in '([{') else j + 1
            return j + 1
        j = k
        while j < close:
            if T[j].kind == 'punct' and T[j].text in '([':
                j = sf.pairs[j] + 1
                continue
            if is_p(T[j], '{'):
                return sf.pairs[j] + 1
            if is_p(T[j], ';'):
                return j + 1
            j += 1
        raise ExtractError('item without end')
    # field `name: ...,` / `pub name: T,` / shorthand `name,`
    if T[k].kind == 'ident' and k + 1 < close and (
            (is_p(T[k + 1], ':') and not is_p(T[k + 2], ':')) or is_p(T[k + 1], ',')
            or k + 1 == close):
        return comma_delimited()
    # match arm?  look for `=>` before `;` at this level
    j = i
    while j < close:
        t = T[j]
        if t.kind == 'punct' and t.text in '([{':
            j = sf.pairs[j] + 1
            continue
        if is_p(t, ';') or is_p(t, ','):
            break
        if is_p(t, '=') and j + 1 < close and is_p(T[j + 1], '>') and T[j + 1].start == t.end:
            # arm: body is a block or an expression up to `,`
            b = j + 2
            if is_p(T[b], '{'):
                e = sf.pairs[b] + 1
                if e < close and is_p(T[e], ','):
                    e += 1
                return e
            jj = b
            while jj < close:
                if T[jj].kind == 'punct' and T[jj].text in '([{':
                    jj = sf.pairs[jj] + 1
                    continue
                if is_p(T[jj], ','):
                    return jj + 1
                jj += 1
            return close
        j += 1
    # statement
    if t0.kind == 'ident' and t0.text in ('if', 'while', 'for', 'loop', 'match', 'unsafe') or is_p(t0, '{'):
        j = i
        while True:
            b = find_block_open(sf, j, close)
            e = sf.pairs[b] + 1
            if e < close and is_id(T[e], 'else'):
                j = e + 1
                continue
            return e
    j = i
    while j < close:
        t = T[j]
        if t.kind == 'punct' and t.text in '([{':
            j = sf.pairs[j] + 1
            continue
        if is_p(t, ';'):
            return j + 1
        j += 1
    return close


class Edits:
    def __init__(self):
        self.items = []   # (start, end, text, kind, note)

    def add(self, start, end, text, kind, note=''):
        self.items.append((start, end, text, kind, note))

    def apply(self, text, base, kinds=None):
        """apply edits (offsets absolute; base = offset of text[0])"""
        its = [e for e in self.items if kinds is None or e[3] in kinds]
        # sort: by start; insertions at the same point keep registration order
        its = sorted(enumerate(its), key=lambda p: (p[1][0], p[1][1], p[0]))
        out = []
        cur = base
        CUTS = ('R9 truncate', 'R11 skip', 'R6 abstract', 'R7 abstract stmt', 'R7e abstract expr')   # replaced regions: edits inside are moot
        big = [(s, e) for (s, e, t, k, nt) in self.items if (k == 'drop' and nt == 'cfg-false') or nt in CUTS]
        r11_ends = {e for (s, e, t, k, nt) in self.items if nt == 'R11 skip'}   # an insertion right behind a skipped prefix belongs to the kept suffix
        for _, (s, e, t, kind, note) in its:
            if note not in ('cfg-false',) + CUTS and any(bs <= s and e <= be and not (s == e == bs) and not (s == e == be and be in r11_ends) for (bs, be) in big):
                continue   # edit lies inside a region removed by E2 / R9 / R11
            if note == 'cfg-false' and any(bs <= s and e <= be for (bs, be, bt, bk, bn) in self.items if bn in CUTS):
                continue   # cfg region inside the truncated suffix / skipped prefix
            if s < cur:
                raise ExtractError(f'overlapping edits at {s} ({kind} {note})')
            out.append(text[cur - base:s - base])
            out.append(t)
            cur = e
        out.append(text[cur - base:])
        return ''.join(out)


def collect_cfg_edits(sf, lo, hi, features, edits, log):
    """E2/E4 over token range [lo,hi): evaluate cfg attrs, drop other outer attrs."""
    T = sf.toks
    i = lo
    while i < hi:
        a = attr_span(sf, i)
        if a is None:
            i += 1
            continue
        # inner attribute `#![..]` is not matched by attr_span (needs `#` `[` adjacent)
        attrs_start = i
        keep = True
        j = i
        while True:
            nxt = attr_span(sf, j)
            if nxt is None:
                break
            v = attr_cfg_value(sf, j, features)
            if v is False:
                keep = False
            j = nxt
        tgt_start = j
        if tgt_start >= hi:
            raise ExtractError('attribute without target')
        if keep:
            edits.add(T[attrs_start].start, T[tgt_start].start, '', 'drop', 'attr')
            i = tgt_start
        else:
            e = target_end(sf, tgt_start)
            end_off = T[e].start if e < len(T) else len(sf.text)
            edits.add(T[attrs_start].start, end_off, '', 'drop', 'cfg-false')
            log.append({'step': 'E2', 'line': sf.line_of(T[attrs_start].start),
                        'dropped': ' '.join(sf.text[T[attrs_start].start:end_off].split())[:160]})
            i = e


def collect_async_edits(sf, lo, hi, edits, log):
    T = sf.toks
    n = 0
    for i in range(lo, hi):
        t = T[i]
        if is_id(t, 'async'):
            nxt = T[i + 1]
            if is_id(nxt, 'fn'):
                edits.add(t.start, nxt.start, '', 'drop', 'async')
                n += 1
            else:
                raise ExtractError(f'async block/closure at line {sf.line_of(t.start)}: outside subset')
        if is_id(t, 'await') and is_p(T[i - 1], '.'):
            edits.add(T[i - 1].start, t.end, '', 'drop', 'await')
            n += 1
    if n:
        log.append({'step': 'E3', 'removed_async_await_tokens': n})


# ------------------------------------------------------------------ item lookup
def compact(toks):
    """canonical header text: no spaces except between two word-like tokens
    e.g. `impl<C>Group<C>where C:ClientConfig+Clone`"""
    out = []
    prev = None
    for t in toks:
        if prev is not None and prev.kind in ('ident', 'num', 'life') and t.kind in ('ident', 'num', 'life'):
            out.append(' ')
        out.append(t.text)
        prev = t
    return ''.join(out)


def find_impl(sf, header_pat):
    """Return (open_brace_idx, header_text) of the impl block whose normalised header
    matches regex header_pat.  Exactly one must match."""
    T = sf.toks
    hits = []
    i = 0
    while i < len(T):
        t = T[i]
        if t.kind == 'punct' and t.text in '([{':
            # descend only into `mod x { }` bodies
            if is_p(t, '{') and i >= 2 and is_id(T[i - 2], 'mod'):
                i += 1
                continue
            i = sf.pairs[i] + 1
            continue
        if is_id(t, 'impl') or (is_id(t, 'trait') and T[i + 1].kind == 'ident'):
            b = find_block_open(sf, i, len(T))
            header = compact(T[i:b])
            if re.search(header_pat, header):
                # cfg on the impl itself
                hits.append((i, b, header))
            i = sf.pairs[b] + 1
            continue
        i += 1
    return hits


def leading_attrs_start(sf, i):
    """walk backwards over outer attributes preceding token i"""
    T = sf.toks
    j = i
    while j >= 2 and is_p(T[j - 1], ']'):
        o = sf.pairs[j - 1]
        if o >= 1 and is_p(T[o - 1], '#'):
            j = o - 1
        else:
            break
    return j


def item_cfg_ok(sf, first, item_first, features):
    j = first
    while j < item_first:
        nxt = attr_span(sf, j)
        v = attr_cfg_value(sf, j, features)
        if v is False:
            return False
        j = nxt
    return True


def find_fn(sf, impl_pat, name, features, nth=None):
    """Locate fn `name` (inside impl matching impl_pat, or at file level if impl_pat == '-').
    Returns dict(first, fn_kw, body_open, body_close, impl_header)."""
    T = sf.toks
    cands = []
    if impl_pat == '-':
        scopes = [(None, -1, len(T), None)]
    else:
        scopes = []
        for (i, b, header) in find_impl(sf, impl_pat):
            first = leading_attrs_start(sf, i)
            if not item_cfg_ok(sf, first, i, features):
                continue
            scopes.append((i, b, sf.pairs[b], header))
        if not scopes:
            raise ExtractError(f'lost anchor: impl /{impl_pat}/ in {sf.path}')
    for (impl_i, b, e, header) in scopes:
        j = b + 1
        while j < e:
            t = T[j]
            if t.kind == 'punct' and t.text in '([{':
                if impl_pat == '-' and is_p(t, '{') and j >= 2 and is_id(T[j - 2], 'mod'):
                    j += 1
                    continue
                j = sf.pairs[j] + 1
                continue
            if is_id(t, 'fn') and is_id(T[j + 1], name):
                # walk back over qualifiers
                k = j
                while True:
                    p = T[k - 1]
                    if p.kind == 'ident' and p.text in ('pub', 'async', 'const', 'unsafe', 'default'):
                        k -= 1
                    elif is_p(p, ')') and is_id(T[sf.pairs[k - 1] - 1], 'pub'):
                        k = sf.pairs[k - 1] - 1
                    else:
                        break
                first = leading_attrs_start(sf, k)
                bo = None
                jj = j
                while jj < e:
                    if T[jj].kind == 'punct' and T[jj].text in '([':
                        jj = sf.pairs[jj] + 1
                        continue
                    if is_p(T[jj], '{'):
                        bo = jj
                        break
                    if is_p(T[jj], ';'):
                        break
                    jj += 1
                if bo is not None and item_cfg_ok(sf, first, k, features):
                    cands.append(dict(first=first, quals=k, fn_kw=j, body_open=bo,
                                      body_close=sf.pairs[bo], impl_header=header,
                                      impl_open=(b if impl_i is not None else None),
                                      impl_close=(e if impl_i is not None else None)))
            j += 1
    if nth is not None:
        if nth - 1 >= len(cands):
            raise ExtractError(f'lost anchor: fn {name} #{nth} in {sf.path}')
        return cands[nth - 1]
    if len(cands) != 1:
        raise ExtractError(f'lost anchor: fn {name} in impl /{impl_pat}/ of {sf.path}: {len(cands)} candidates')
    return cands[0]


def find_type(sf, kind, name, features):
    T = sf.toks
    cands = []
    for j, t in enumerate(T):
        if is_id(t, kind) and j + 1 < len(T) and is_id(T[j + 1], name):
            par = sf.parent[j]
            if par is not None and not (is_p(T[par], '{') and par >= 2 and is_id(T[par - 2], 'mod')):
                continue
            k = j
            while T[k - 1].kind == 'ident' and T[k - 1].text == 'pub' or (
                    is_p(T[k - 1], ')') and is_id(T[sf.pairs[k - 1] - 1], 'pub')):
                k = k - 1 if T[k - 1].kind == 'ident' else sf.pairs[k - 1] - 1
            first = leading_attrs_start(sf, k)
            if not item_cfg_ok(sf, first, k, features):
                continue
            jj = j
            end = None
            while jj < len(T):
                if is_p(T[jj], '(') or is_p(T[jj], '['):
                    jj = sf.pairs[jj] + 1
                    # tuple struct: ends with `;`
                    continue
                if is_p(T[jj], '{'):
                    end = sf.pairs[jj] + 1
                    break
                if is_p(T[jj], ';'):
                    end = jj + 1
                    break
                jj += 1
            cands.append((first, k, j, end))
    if len(cands) != 1:
        raise ExtractError(f'lost anchor: {kind} {name} in {sf.path}: {len(cands)} candidates')
    return cands[0]


# ------------------------------------------------------------ body landmarks
def loops_in(sf, lo, hi):
    """token indexes of loop keywords (while/for/loop) in [lo,hi), source order.
    `for` in `for<'a>` HRTB or `impl X for Y` does not occur inside fn bodies."""
    T = sf.toks
    res = []
    for i in range(lo, hi):
        t = T[i]
        if t.kind == 'ident' and t.text in ('while', 'loop', 'for'):
            if t.text == 'for' and is_p(T[i + 1], '<'):
                continue
            res.append(i)
    return res


def closures_in(sf, lo, hi):
    """token indexes of the opening `|` of closures in [lo,hi)"""
    T = sf.toks
    res = []
    i = lo
    while i < hi:
        t = T[i]
        if is_p(t, '|'):
            p = T[i - 1]
            starts = False
            if p.kind == 'punct' and p.text in '(,={;[':
                starts = True
            if p.kind == 'punct' and p.text == '>' and is_p(T[i - 2], '=') :
                starts = True
            if p.kind == 'ident' and p.text in ('move', 'return', 'else'):
                starts = True
            if is_p(p, '=') and is_p(T[i - 2], '=') and T[i - 2].end == p.start:
                starts = False  # `== |` cannot happen, be safe
            if is_p(p, '|') and p.end == t.start:
                starts = False  # second bar of `||`
            if starts:
                res.append(i)
                # skip params
                if is_p(T[i + 1], '|') and T[i + 1].start == t.end:
                    i += 2
                else:
                    j = i + 1
                    while not is_p(T[j], '|'):
                        j = sf.pairs[j] + 1 if (T[j].kind == 'punct' and T[j].text in '([{') else j + 1
                    i = j + 1
                continue
        i += 1
    return res


def closure_parts(sf, i):
    """for closure opening at token i: (params_lo, params_hi, body_lo, body_hi) token idx
    params in (params_lo, params_hi) exclusive of bars; body [body_lo, body_hi)"""
    T = sf.toks
    if is_p(T[i + 1], '|') and T[i + 1].start == T[i].end:
        pc = i + 1
    else:
        j = i + 1
        while not is_p(T[j], '|'):
            j = sf.pairs[j] + 1 if (T[j].kind == 'punct' and T[j].text in '([{') else j + 1
        pc = j
    b = pc + 1
    if is_p(T[b], '-') and is_p(T[b + 1], '>'):
        raise ExtractError('closure already has a return type')
    if is_p(T[b], '{'):
        return (i + 1, pc, b, sf.pairs[b] + 1)
    par = sf.parent[i]
    close = sf.pairs[par] if par is not None else len(T)
    j = b
    while j < close:
        t = T[j]
        if t.kind == 'punct' and t.text in '([{':
            j = sf.pairs[j] + 1
            continue
        if t.kind == 'punct' and t.text in ',;':
            break
        j += 1
    return (i + 1, pc, b, j)


# ----------------------------------------------------------------- .vc parsing
def parse_vc(path):
    """Line-oriented contract file.  Returns dict(unit, features, sections[])"""
    with open(path) as f:
        lines = f.read().split('\n')
    unit = {'name': os.path.basename(path)[:-3], 'features': None, 'sections': [], 'header': ''}
    i = 0

    def block(endtag):
        nonlocal i
        buf = []
        while i < len(lines) and lines[i].strip() != endtag:
            buf.append(lines[i])
            i += 1
        if i >= len(lines):
            raise ExtractError(f'{path}: missing {endtag}')
        i += 1
        return '\n'.join(buf)

    while i < len(lines):
        ln = lines[i]
        s = ln.strip()
        i += 1
        if not s or s.startswith('##'):
            continue
        if s.startswith('#features'):
            toks_ = s.split()[1:]
            feats = set(DEFAULT_FEATURES)
            for tk in toks_:
                if tk.startswith('+'):
                    feats.add(tk[1:])
                elif tk.startswith('-'):
                    feats.discard(tk[1:])
            unit['features'] = feats
        elif s == '#header':
            unit['header'] = block('#end')
        elif s == '#raw':
            unit['sections'].append({'kind': 'raw', 'text': block('#end')})
        elif s.startswith('#include '):
            inc = os.path.join(os.path.dirname(os.path.abspath(path)), s.split(None, 1)[1].strip())
            if not os.path.exists(inc):
                raise ExtractError(f'{path}: missing include {inc}')
            unit['sections'].append({'kind': 'raw', 'text': f'// ---- include {os.path.basename(inc)}\n' + open(inc).read()})
        elif s.startswith('#type '):
            m = re.match(r'#type\s+(\S+)\s*::\s*(struct|enum)\s+(\w+)(.*)$', s)
            if not m:
                raise ExtractError(f'{path}: bad #type line: {s}')
            unit['sections'].append({'kind': 'type', 'file': m.group(1), 'tkind': m.group(2),
                                     'name': m.group(3), 'opts': m.group(4).split()})
        elif s.startswith('#const '):
            # `#const FILE :: NAME`: a `const NAME: T = EXPR;` item of the file, taken as it is (visibility normalised to `pub`)
            # `#const FILE :: NAME == VALUE [:: proof-hint]`: emitted as `pub exec const NAME: T ensures NAME == VALUE { proof { hint } EXPR }`,
            # i.e. the verifier PROVES that the real initialiser evaluates to VALUE (the value the property speaks of)
            m = re.match(r'#const\s+(\S+)\s*::\s*(\w+)(?:\s+as\s+(\S+))?(?:\s*==\s*(.+?))?(?:\s*::\s*(.+))?$', s)
            if not m:
                raise ExtractError(f'{path}: bad #const line: {s}')
            unit['sections'].append({'kind': 'const', 'file': m.group(1), 'name': m.group(2), 'id': m.group(3), 'value': m.group(4), 'hint': m.group(5)})
        elif s.startswith('#fn '):
            m = re.match(r'#fn\s+(\S+)\s*::\s*(.+?)\s*::\s*(\w+)\s*$', s)
            if not m:
                raise ExtractError(f'{path}: bad #fn line: {s}')
            fn = {'kind': 'fn', 'file': m.group(1), 'impl': m.group(2), 'name': m.group(3),
                  'ret': None, 'spec': '', 'loops': {}, 'closures': {}, 'proofs': [],
                  'wrap': None, 'id': None, 'nth': None, 'subst': [], 'attrs': ''}
            while i < len(lines):
                s2 = lines[i].strip()
                i += 1
                if s2 == '#endfn':
                    break
                if not s2 or s2.startswith('##'):
                    continue
                if s2.startswith('#id '):
                    fn['id'] = s2[4:].strip()
                elif s2.startswith('#nth '):
                    fn['nth'] = int(s2[5:])
                elif s2.startswith('#ret '):
                    fn['ret'] = s2[5:].strip()
                elif s2.startswith('#wrap '):
                    fn['wrap'] = s2[6:].strip()
                elif s2 == '#wrap-begin':
                    fn['wrap'] = block('#end')
                elif s2.startswith('#wrap-mode '):
                    # several extracted fns inside ONE impl/trait block: open (emit header, keep the block
                    # open), inner (body only), close (body + closing brace)
                    fn['wrap_mode'] = s2.split()[1]
                elif s2.startswith('#attr '):
                    fn['attrs'] += s2[6:].strip() + '\n'
                elif s2 == '#spec':
                    fn['spec'] = block('#end')
                elif s2.startswith('#loop ') or s2.startswith('#loop-opt '):
                    # (`#loop-opt N`: for the LAST loop of a body only - if the body has fewer loops the annotation is dropped
                    # instead of reporting a lost anchor; what the loop established then has to hold without it)
                    fn['loops'][int(s2.split()[1])] = block('#end')
                    if s2.startswith('#loop-opt '):
                        fn.setdefault('loops_opt', set()).add(int(s2.split()[1]))
                elif s2.startswith('#closure '):
                    n_ = int(s2.split()[1])
                    c = {'param': None, 'ret': None, 'spec': '', 'match': None}
                    body = block('#end')
                    for cl in body.split('\n'):
                        cs = cl.strip()
                        if cs.startswith('match '):
                            c['match'] = cs[6:].strip().strip('/')
                        elif cs.startswith('param '):
                            c['param'] = cs[6:].strip()
                        elif cs.startswith('ret '):
                            c['ret'] = cs[4:].strip()
                        elif cs:
                            c['spec'] += cs + ' '
                    fn['closures'][n_] = c
                elif s2.startswith('#abstract-let '):
                    m2 = re.match(r'#abstract-let\s+(\w+)\s+sha=(\w+)\s*=\s*(.+)$', s2)
                    if not m2:
                        raise ExtractError(f'{path}: bad #abstract-let (need `NAME sha=<hash> = expr`): {s2}')
                    fn.setdefault('abstract', []).append((m2.group(1), m2.group(3).strip(), m2.group(2)))
                elif s2.startswith('#abstract-stmt ') or s2.startswith('#abstract-stmt-opt '):
                    # R7: `#abstract-stmt sha=<hash> /regex/ = replacement-statement`
                    # (`#abstract-stmt-opt`: a statement that is no longer in the body is not a lost anchor - nothing is abstracted
                    # then, and whatever the proof took from the statement's assumed contract has to hold without it)
                    m2 = re.match(r'#abstract-stmt(?:-opt)?\s+sha=(\w+)\s+/(.+)/\s*=\s*(.+)$', s2)
                    if not m2:
                        raise ExtractError(f'{path}: bad #abstract-stmt (need `sha=<hash> /regex/ = stmt`): {s2}')
                    fn.setdefault('abstract_stmts', []).append((m2.group(2), m2.group(3).strip(), m2.group(1), s2.startswith('#abstract-stmt-opt ')))
                elif s2.startswith('#subst '):
                    # R10: `#subst Self::OutputType => ExternalReceivedMessage`: an associated type of the enclosing
                    # trait impl is replaced by the type the impl assigns to it (the unit wraps the method in an
                    # inherent impl, where `Self::X` does not resolve)
                    m2 = re.match(r'#subst\s+(.+?)\s*=>\s*(.+)$', s2)
                    if not m2:
                        raise ExtractError(f'{path}: bad #subst: {s2}')
                    fn.setdefault('subst', []).append((m2.group(1).strip(), m2.group(2).strip()))
                elif s2.startswith('#skip-before '):
                    # R11: `#skip-before /regex/ = statement(s)`: everything of the body IN FRONT OF the match is
                    # replaced by the given statement(s), which may only call assumed functions
                    m2 = re.match(r'#skip-before\s+(?:sha=(\w+)\s+)?/(.+)/\s*=\s*(.+)$', s2)
                    if not m2:
                        raise ExtractError(f'{path}: bad #skip-before (need `[sha=<hash>] /regex/ = stmt`): {s2}')
                    fn['skip_before'] = (m2.group(2), m2.group(3).strip(), m2.group(1))
                elif s2.startswith('#truncate-before '):
                    # R9 variant: cut right BEFORE the first match of the regex
                    m2 = re.match(r'#truncate-before\s+(?:sha=(\w+)\s+)?/(.+)/\s*=\s*(.+)$', s2)
                    if not m2:
                        raise ExtractError(f'{path}: bad #truncate-before (need `[sha=<hash>] /regex/ = expr`): {s2}')
                    fn['truncate'] = (r'(?s)\A.*?(?=' + m2.group(2) + ')', m2.group(3).strip(), m2.group(1))
                elif s2.startswith('#truncate-after '):
                    # R9: `#truncate-after /regex/ = tail-expression`: everything of the body BEHIND the match is
                    # replaced by one call to an unconstrained assumed function (only a prefix is verified)
                    m2 = re.match(r'#truncate-after\s+(?:sha=(\w+)\s+)?/(.+)/\s*=\s*(.+)$', s2)
                    if not m2:
                        raise ExtractError(f'{path}: bad #truncate-after (need `[sha=<hash>] /regex/ = expr`): {s2}')
                    fn['truncate'] = (m2.group(2), m2.group(3).strip(), m2.group(1))
                elif s2.startswith('#wrap-postfix ') or s2.startswith('#wrap-postfix-opt '):
                    # R7w: `#wrap-postfix sha=<hash> /receiver-start-regex/ /postfix-regex/ = FUNC`: the method-chain
                    # suffix matched by the second regex (compact text, pinned by hash), applied to the bracket-balanced
                    # expression that starts at the match of the first regex and ends right in front of the suffix, is
                    # replaced by a call `FUNC(<that expression>)` of an assumed function - the receiver stays verified
                    # (`#wrap-postfix-opt`: a receiver that is no longer in the body is not a lost anchor - there is then
                    # nothing to abstract, and a property clause that needed the call fails on its own)
                    m2 = re.match(r'#wrap-postfix(?:-opt)?\s+sha=(\w+)\s+/(.+?)/\s+/(.+)/\s*=\s*(.+)$', s2)
                    if not m2:
                        raise ExtractError(f'{path}: bad #wrap-postfix (need `sha=<hash> /start/ /postfix/ = func`): {s2}')
                    fn.setdefault('wrap_postfix', []).append((m2.group(2), m2.group(3), m2.group(4).strip(), m2.group(1), s2.startswith('#wrap-postfix-opt ')))
                elif s2.startswith('#abstract-expr-all '):
                    # R7e, every occurrence (for constants that a body may mention any number of times): all matches
                    # must be the same text (pinned by hash)
                    m2 = re.match(r'#abstract-expr-all\s+sha=(\w+)\s+/(.+)/\s*=\s*(.+)$', s2)
                    if not m2:
                        raise ExtractError(f'{path}: bad #abstract-expr-all (need `sha=<hash> /regex/ = expr`): {s2}')
                    fn.setdefault('abstract_exprs', []).append((m2.group(2), m2.group(3).strip(), m2.group(1), 'all'))
                elif s2.startswith('#abstract-expr '):
                    # R7e: `#abstract-expr sha=<hash> /regex/ = replacement-expression`
                    m2 = re.match(r'#abstract-expr\s+sha=(\w+)\s+/(.+)/\s*=\s*(.+)$', s2)
                    if not m2:
                        raise ExtractError(f'{path}: bad #abstract-expr (need `sha=<hash> /regex/ = expr`): {s2}')
                    fn.setdefault('abstract_exprs', []).append((m2.group(2), m2.group(3).strip(), m2.group(1)))
                elif s2.startswith('#lift-closure '):
                    # R13: `#lift-closure /regex/ = fn NAME(PARAMS) -> (r: T)`: the unit of extraction is not the named fn
                    # but the (unique) closure inside it whose text matches the regex: its block body becomes the body of a
                    # fn with the given header (captured variables become parameters; a last parameter called `verif_arg`
                    # is destructured with the closure's own parameter pattern).  Everything around the closure (the iterator
                    # chain that calls it) is dropped and stated as such.
                    m2 = re.match(r'#lift-closure\s+/(.+)/\s*=\s*(fn\s.+)$', s2)
                    if not m2:
                        raise ExtractError(f'{path}: bad #lift-closure (need `/regex/ = fn name(params) -> ret`): {s2}')
                    fn['lift'] = (m2.group(1), m2.group(2).strip())
                elif s2 == '#name-bytes':
                    # R8: byte-string literals of the body get a name (generated accessor with their content
                    # as postcondition), because the verifier knows nothing about a literal's bytes
                    fn['name_bytes'] = True
                elif s2.startswith('#enumerate-loop '):
                    # R2: `for (I, X) in E.iter().enumerate() { B }`  ->  index loop (n-th loop of the body)
                    fn.setdefault('enum_loops', []).append(int(s2.split()[1]))
                    if len(s2.split()) > 2 and s2.split()[2] == 'copy':
                        # shape C only: bind the element BY VALUE (`let X = v[k];`): rustc accepts that only for a
                        # Copy element type, where it is what `into_iter()` yields
                        fn.setdefault('enum_loops_copy', []).append(int(s2.split()[1]))
                elif s2.startswith('#ascribe '):
                    # `#ascribe x: T` (the only `let x`) or `#ascribe x@2: T` (the second `let x` of the body: shadowing)
                    m2 = re.match(r'#ascribe\s+(\w+)(?:@(\d+))?\s*:\s*(.+)$', s2)
                    if not m2:
                        raise ExtractError(f'{path}: bad #ascribe: {s2}')
                    fn.setdefault('ascribe', []).append((m2.group(1), (m2.group(3).strip(), int(m2.group(2))) if m2.group(2) else m2.group(3).strip()))
                elif s2.startswith('#proof-before '):
                    pat = s2[len('#proof-before '):].strip()
                    fn['proofs'].append(('before', pat, block('#end')))
                elif s2.startswith('#proof-after '):
                    pat = s2[len('#proof-after '):].strip()
                    fn['proofs'].append(('after', pat, block('#end')))
                else:
                    raise ExtractError(f'{path}: unknown fn directive {s2}')
            unit['sections'].append(fn)
        else:
            raise ExtractError(f'{path}: unknown directive: {s}')
    return unit


GHOST_STMT_OK = re.compile(r'^\s*(proof\s*\{|assert\b|assert_by\b|broadcast\s+use\b|let\s+ghost\b|let\s+tracked\b|assume\b|reveal\b)')


def check_ghost_stmt(text):
    if not GHOST_STMT_OK.match(text):
        raise ExtractError(f'proof splice is not a ghost statement: {text[:60]!r}')


# ------------------------------------------------------------- fn extraction
def extract_fn(repo, spec, features):
    path = os.path.join(repo, spec['file'])
    if not os.path.exists(path):
        raise ExtractError(f'lost anchor: file {spec["file"]}')
    sf = SourceFile.get(path)
    loc = find_fn(sf, spec['impl'], spec['name'], features, spec.get('nth'))
    T = sf.toks
    first, fn_kw, bo, bc = loc['first'], loc['fn_kw'], loc['body_open'], loc['body_close']
    log = []
    edits = Edits()
    lift = spec.get('lift')
    if lift:
        # ---- R13: closure lifting (see the directive).  From here on the "function" is the closure: `first` is its
        # opening bar, the body block is the closure's block; the header is the declared one.
        rx, header = lift
        hits = []
        for ci in closures_in(sf, bo + 1, bc):
            plo, phi, blo, bhi = closure_parts(sf, ci)
            ctext = ' '.join(sf.text[T[ci].start:T[bhi - 1].end].split())
            if re.search(rx, ctext):
                hits.append((ci, plo, phi, blo))
        if len(hits) != 1:
            raise ExtractError(f'lost anchor: closure /{rx}/ in {spec["name"]} ({len(hits)} matches)')
        ci, plo, phi, blo = hits[0]
        while is_id(T[blo], 'async') or is_id(T[blo], 'move'):
            blo += 1
        if not is_p(T[blo], '{'):
            # an expression body: `|p| E` is `|p| { E }` (braces around an expression are semantically neutral); the source
            # text is rewritten in memory and the extraction starts over on it
            _, _, _, bhi0 = closure_parts(sf, ci)
            a_off, e_off = T[blo].start, T[bhi0 - 1].end
            text2 = sf.text[:a_off] + '{ ' + sf.text[a_off:e_off] + ' }' + sf.text[e_off:]
            sf = SourceFile.from_text(path, text2)
            loc = find_fn(sf, spec['impl'], spec['name'], features, spec.get('nth'))
            T = sf.toks
            first, fn_kw, bo, bc = loc['first'], loc['fn_kw'], loc['body_open'], loc['body_close']
            hits = []
            for ci2 in closures_in(sf, bo + 1, bc):
                plo2, phi2, blo2, bhi2 = closure_parts(sf, ci2)
                ctext2 = ' '.join(sf.text[T[ci2].start:T[bhi2 - 1].end].split())
                if re.search(rx, ctext2) or re.search(rx, ctext2.replace('{ ', '', 1)):
                    hits.append((ci2, plo2, phi2, blo2))
            if len(hits) != 1:
                raise ExtractError(f'lost anchor: closure /{rx}/ in {spec["name"]} after wrapping ({len(hits)} matches)')
            ci, plo, phi, blo = hits[0]
            while is_id(T[blo], 'async') or is_id(T[blo], 'move'):
                blo += 1
            log.append({'step': 'R1b', 'line': sf.line_of(T[ci].start), 'note': 'closure expression body wrapped in { } before lifting'})
        if not is_p(T[blo], '{'):
            raise ExtractError(f'R13 refused: the closure /{rx}/ of {spec["name"]} has no block body')
        if spec['ret']:
            raise ExtractError('R13: the return name goes into the declared header, not #ret')
        ptext = ' '.join(sf.text[T[plo].start:T[phi].start].split()) if plo < phi else ''
        pre = ''
        if re.search(r'\bverif_arg\b', header):
            # a reference pattern `&x` (binds x to a copy of the referent) is written as a binding plus a deref,
            # which is what it means: `(.., &x) = a`  ==  `(.., verif_ref_x) = a; let x = *verif_ref_x;`
            refs = re.findall(r'&\s*(\w+)', ptext)
            ptext2 = re.sub(r'&\s*(\w+)', r'verif_ref_\1', ptext)
            pre = f' let {ptext2} = verif_arg; ' + ''.join(f'let {x} = *verif_ref_{x}; ' for x in refs)
        n_outer = (bc - bo) - (sf.pairs[blo] - blo)
        first = ci
        loc = dict(loc, quals=ci)
        fn_kw = bo = blo
        bc = sf.pairs[blo]
        edits.add(T[ci].start, T[bo].start, header + ' ', 'rewrite', 'R13 lift')
        if pre:
            edits.add(T[bo].end, T[bo].end, pre, 'rewrite', 'R13 param pattern')
        log.append({'step': 'R13', 'line': sf.line_of(T[ci].start),
                    'before': f'closure |{ptext}| {{ B }} inside {spec["name"]}',
                    'after': f'{header} {{{pre}B }}',
                    'dropped_tokens': n_outer,
                    'note': 'only the closure body is verified; the code of the enclosing fn around it (what the closure is '
                            'applied to and what is done with its results) is dropped'})
    # E4: attributes + visibility/qualifiers (keep `const`/`unsafe` out of the subset)
    for k in range(loc['quals'], fn_kw):
        if is_id(T[k], 'unsafe'):
            raise ExtractError('unsafe fn: outside subset')
    if first < loc['quals']:
        edits.add(T[first].start, T[loc['quals']].start, '', 'drop', 'outer attrs')
    vis_end = fn_kw
    if loc['quals'] < fn_kw and not lift:
        # drop pub / pub(crate) / async, keep nothing else
        quals = ' '.join(t.text for t in T[loc['quals']:fn_kw])
        if re.sub(r'pub|\(|\)|crate|super|async|in|self|\s', '', quals):
            raise ExtractError(f'unsupported fn qualifiers: {quals}')
        edits.add(T[loc['quals']].start, T[fn_kw].start, '', 'drop', 'visibility/async')
        if 'async' in quals:
            log.append({'step': 'E3', 'removed': 'async fn qualifier'})
    # E2/E4 inside signature + body
    collect_cfg_edits(sf, fn_kw, bc, features, edits, log)
    # E3
    collect_async_edits(sf, fn_kw + 1, bc, edits, log)

    # tokens deleted by E2 must not be used as landmarks: compute set of dropped ranges
    dropped = [(s, e) for (s, e, t, k, n) in edits.items if k == 'drop']

    def alive(tok):
        return not any(s <= tok.start < e for (s, e) in dropped)

    # ---- R6: statement abstraction.  `let NAME = <expr>;` at the top level of the body keeps its
    # binding but the initialiser is replaced by a call to an assumed-contract function.  This is
    # NOT meaning-preserving: it is logged, reported in the evidence as an unverified expression,
    # and may only be used for initialisers that borrow `self` immutably.
    for (var, repl, want_sha) in spec.get('abstract', []):
        hits = []
        j = bo + 1
        while j < bc:
            t = T[j]
            if t.kind == 'punct' and t.text in '([{':
                j = sf.pairs[j] + 1
                continue
            if is_id(t, 'let') and alive(t) and (is_id(T[j + 1], var) or (is_id(T[j + 1], 'mut') and is_id(T[j + 2], var))):
                k = j + 2
                while not is_p(T[k], '='):
                    k += 1
                e = k + 1
                while not is_p(T[e], ';'):
                    e = sf.pairs[e] + 1 if (T[e].kind == 'punct' and T[e].text in '([{') else e + 1
                hits.append((k + 1, e))
            j += 1
        if len(hits) != 1:
            raise ExtractError(f'lost anchor: let {var} in {spec["name"]} ({len(hits)} matches)')
        a, e = hits[0]
        orig = ' '.join(sf.text[T[a].start:T[e].start].split())
        # the abstraction is valid only for the exact expression that was reviewed when it was
        # written: any edit inside it makes the unit UNDECIDED (never an alarm, never a silent pass)
        have_sha = hashlib.sha256(norm(T[a:e]).encode()).hexdigest()[:16]
        if have_sha != want_sha:
            # edited since it was reviewed: the stand-in's assumed contract describes the REVIEWED expression, so any
            # change makes the unit UNDECIDED (an earlier version tolerated edits without mutating tokens; that was only
            # sound for stand-ins without postconditions)
            raise ExtractError(f'abstracted initialiser of `{var}` in {spec["name"]} changed '
                               f'(sha {have_sha}, reviewed {want_sha}): the assumed contract no longer describes it')
        if re.search(r'&mut\s+self|self\.\w+\s*=[^=]', orig):
            raise ExtractError(f'abstracted initialiser of {var} mutates self: refused')
        edits.add(T[a].start, T[e].start, ' ' + repl, 'rewrite', 'R6 abstract')
        log.append({'step': 'R6', 'line': sf.line_of(T[a].start), 'abstracted_unverified': orig[:400], 'replaced_by': repl})
        dropped.append((T[a].start, T[e].start))

    # ---- R7: expression-statement abstraction.  One expression statement `E;` anywhere in the body whose
    # normalised text matches the regex is replaced by a call to an assumed-contract function.  Unlike R6
    # the statement MAY mutate (that is what the assumed contract describes), so the abstraction is pinned
    # strictly: any edit of the statement makes the unit UNDECIDED.  NOT meaning-preserving; logged and
    # reported in the evidence as an unverified statement.
    for (rx, repl, want_sha, optional) in spec.get('abstract_stmts', []):
        hits = []
        for j in range(bo, bc):
            t = T[j]
            if not (t.kind == 'punct' and t.text in ';{}') or not alive(t):
                continue
            a = j + 1
            while a < bc and not alive(T[a]):   # attributes dropped by the cfg pass
                a += 1
            if a >= bc or is_id(T[a], 'let') or (T[a].kind == 'punct' and T[a].text in ';{}'):
                continue
            e = a
            ok = True
            while e < bc and not is_p(T[e], ';'):
                if T[e].kind == 'punct' and T[e].text in '([{':
                    e = sf.pairs[e] + 1
                elif T[e].kind == 'punct' and T[e].text in ')]}':
                    ok = False
                    break
                else:
                    e += 1
            if not ok or e >= bc:
                continue
            txt = norm(T[a:e])
            if re.search(rx, txt.replace(' ', '')):
                hits.append((a, e, txt))
        if optional and len(hits) == 0:
            log.append({'step': 'R7', 'skipped': f'statement /{rx}/ not in the body; nothing abstracted'})
            continue
        if len(hits) != 1:
            raise ExtractError(f'lost anchor: statement /{rx}/ in {spec["name"]} ({len(hits)} matches)')
        a, e, txt = hits[0]
        have_sha = hashlib.sha256(txt.encode()).hexdigest()[:16]
        if have_sha != want_sha:
            raise ExtractError(f'abstracted statement /{rx}/ in {spec["name"]} changed (sha {have_sha}, reviewed {want_sha}): '
                               f'the assumed contract no longer describes it')
        edits.add(T[a].start, T[e].start, ' ' + repl, 'rewrite', 'R7 abstract stmt')
        log.append({'step': 'R7', 'line': sf.line_of(T[a].start), 'abstracted_unverified': txt.replace(' ', '')[:400], 'replaced_by': repl})
        dropped.append((T[a].start, T[e].start))

    # ---- R10: associated-type substitution (signature and body).  Checked against the impl block: the
    # impl must contain `type X = <replacement>;` literally.
    for (frm, to) in spec.get('subst', []):
        m_ = re.fullmatch(r'Self\s*::\s*(\w+)', frm)
        if not m_:
            raise ExtractError(f'R10: only `Self::Name` can be substituted ({frm})')
        name = m_.group(1)
        io, ic = loc.get('impl_open'), loc.get('impl_close')
        decl = None
        if io is not None:
            for j in range(io + 1, ic):
                if is_id(T[j], 'type') and is_id(T[j + 1], name) and is_p(T[j + 2], '='):
                    e = j + 3
                    while not is_p(T[e], ';'):
                        e += 1
                    decl = norm(T[j + 3:e]).replace(' ', '')
                    break
        if decl is None or decl != to.replace(' ', ''):
            raise ExtractError(f'R10 refused: the impl does not declare `type {name} = {to};` (found {decl})')
        for j in range(fn_kw, bc):
            if is_id(T[j], 'Self') and is_p(T[j + 1], ':') and is_p(T[j + 2], ':') and is_id(T[j + 3], name) and alive(T[j]):
                edits.add(T[j].start, T[j + 3].end, to, 'rewrite', 'R10 subst')
        log.append({'step': 'R10', 'before': frm, 'after': to, 'note': f'impl declares `type {name} = {to};`'})

    # ---- R9: body truncation.  The statements behind the (unique) match of the regex, up to the end of the
    # body, are dropped and replaced by ONE tail call to an assumed function without postcondition that takes
    # `self` and the parameters: whatever the dropped suffix does is allowed.  Only properties of the PREFIX
    # (early-return guards) can be proved this way; logged with the number of tokens dropped.
    if spec.get('truncate'):
        rx, tail, pin = spec['truncate']
        btxt_lo = T[bo].end
        btxt = sf.text[btxt_lo:T[bc].start]
        ms = list(re.finditer(rx, btxt))
        if len(ms) != 1:
            raise ExtractError(f'lost anchor: /{rx}/ matches {len(ms)} times in {spec["name"]}')
        cut = btxt_lo + ms[0].end()
        # the cut must sit at top level of the body (brace depth 0 relative to the body)
        depth = 0
        for j in range(bo + 1, bc):
            if T[j].start >= cut:
                break
            if T[j].kind == 'punct' and T[j].text in '([{':
                depth += 1
            elif T[j].kind == 'punct' and T[j].text in ')]}':
                depth -= 1
        if depth != 0:
            raise ExtractError(f'R9 refused: /{rx}/ does not end at the top level of the body of {spec["name"]}')
        ndrop = sum(1 for j in range(bo + 1, bc) if T[j].start >= cut)
        if pin:
            # the assumed tail call has a postcondition: it describes the REVIEWED suffix, so the suffix is pinned by hash
            have = hashlib.sha256(norm([T[j] for j in range(bo + 1, bc) if T[j].start >= cut and alive(T[j])]).encode()).hexdigest()[:16]
            if have != pin:
                raise ExtractError(f'abstracted suffix of {spec["name"]} changed (sha {have}, reviewed {pin}): the assumed contract no longer describes it')
        edits.add(cut, T[bc].start, '\n        ' + tail + '\n    ', 'rewrite', 'R9 truncate')
        dropped.append((cut, T[bc].start))
        log.append({'step': 'R9', 'line': sf.line_of(cut), 'dropped_tokens': ndrop,
                    'note': 'body suffix replaced by an unconstrained assumed call: ' + tail})

    # ---- R11: body prefix skipped.  The statements in front of the (unique) match of the regex are dropped and
    # replaced by the given statement(s) - calls to assumed functions that stand for whatever the prefix does to
    # `self`, the parameters and the locals the suffix uses.  Only properties of the SUFFIX relative to the state
    # those assumed calls leave behind are proved; logged with the number of tokens dropped.
    if spec.get('skip_before'):
        rx, head, pin = spec['skip_before']
        btxt_lo = T[bo].end
        btxt = sf.text[btxt_lo:T[bc].start]
        ms = list(re.finditer(rx, btxt))
        if len(ms) != 1:
            raise ExtractError(f'lost anchor: /{rx}/ matches {len(ms)} times in {spec["name"]}')
        cut = btxt_lo + ms[0].start()
        depth = 0
        for j in range(bo + 1, bc):
            if T[j].start >= cut:
                break
            if T[j].kind == 'punct' and T[j].text in '([{':
                depth += 1
            elif T[j].kind == 'punct' and T[j].text in ')]}':
                depth -= 1
        if depth != 0:
            raise ExtractError(f'R11 refused: /{rx}/ does not start at the top level of the body of {spec["name"]}')
        ndrop = sum(1 for j in range(bo + 1, bc) if T[j].start < cut)
        if pin:
            have = hashlib.sha256(norm([T[j] for j in range(bo + 1, bc) if T[j].start < cut and alive(T[j])]).encode()).hexdigest()[:16]
            if have != pin:
                raise ExtractError(f'abstracted prefix of {spec["name"]} changed (sha {have}, reviewed {pin}): the assumed contract no longer describes it')
        edits.add(btxt_lo, cut, '\n        ' + head + '\n        ', 'rewrite', 'R11 skip')
        dropped.append((btxt_lo, cut))
        log.append({'step': 'R11', 'line': sf.line_of(cut), 'dropped_tokens': ndrop,
                    'note': 'body prefix replaced by assumed statement(s): ' + head})

    # ---- R7e: expression abstraction.  A contiguous token range of the body whose compact text (tokens
    # joined without spaces) is matched EXACTLY by the regex is replaced by a call to an assumed-contract
    # function.  Pinned strictly by hash like R7; refused if the range contains tokens that can mutate.
    for ae in spec.get('abstract_exprs', []):
        (rx, repl, want_sha), every = ae[:3], (len(ae) > 3)
        live = [j for j in range(bo + 1, bc) if alive(T[j]) and T[j].kind != 'comment']
        offs, acc = [], 0
        for j in live:
            offs.append(acc)
            acc += len(T[j].text)
        compact_txt = ''.join(T[j].text for j in live)
        ms = [m for m in re.finditer(rx, compact_txt) if m.start() in offs and (m.end() in offs or m.end() == acc)]
        if every and len(ms) == 0:
            log.append({'step': 'note', 'abstract_expr_all_no_occurrence': rx})
            continue
        if every and len(ms) >= 1 and len({m_.group(0) for m_ in ms}) == 1:
            have_sha = hashlib.sha256(ms[0].group(0).encode()).hexdigest()[:16]
            if have_sha != want_sha:
                raise ExtractError(f'abstracted expression /{rx}/ in {spec["name"]} changed (sha {have_sha}, reviewed {want_sha})')
            for m_ in ms:
                a_ = live[offs.index(m_.start())]
                e_i = offs.index(m_.end()) if m_.end() in offs else len(live)
                e_ = live[e_i - 1]
                depth_ = 0
                for j in range(a_, e_ + 1):
                    if T[j].kind == 'punct' and T[j].text in '([{':
                        depth_ += 1
                    elif T[j].kind == 'punct' and T[j].text in ')]}':
                        depth_ -= 1
                        if depth_ < 0:
                            break
                if depth_ != 0:
                    raise ExtractError(f'/{rx}/ in {spec["name"]}: #abstract-expr-all needs bracket-balanced expressions')
                edits.add(T[a_].start, T[e_].end, repl, 'rewrite', 'R7e abstract expr')
                dropped.append((T[a_].start, T[e_].end))
            log.append({'step': 'R7e', 'line': sf.line_of(T[live[offs.index(ms[0].start())]].start), 'occurrences': len(ms),
                        'abstracted_unverified': ms[0].group(0)[:400], 'replaced_by': repl})
            continue
        if len(ms) != 1:
            raise ExtractError(f'lost anchor: expression /{rx}/ in {spec["name"]} ({len(ms)} matches)')
        m = ms[0]
        a = live[offs.index(m.start())]
        e_idx = offs.index(m.end()) if m.end() in offs else len(live)
        e = live[e_idx - 1]
        # balanced brackets inside the range
        depth = 0
        for j in range(a, e + 1):
            if T[j].kind == 'punct' and T[j].text in '([{':
                depth += 1
            elif T[j].kind == 'punct' and T[j].text in ')]}':
                depth -= 1
                if depth < 0:
                    raise ExtractError(f'/{rx}/ in {spec["name"]} is not a bracket-balanced expression')
        if depth != 0:
            raise ExtractError(f'/{rx}/ in {spec["name"]} is not a bracket-balanced expression')
        have_sha = hashlib.sha256(m.group(0).encode()).hexdigest()[:16]
        if have_sha != want_sha:
            raise ExtractError(f'abstracted expression /{rx}/ in {spec["name"]} changed (sha {have_sha}, reviewed {want_sha})')
        edits.add(T[a].start, T[e].end, repl, 'rewrite', 'R7e abstract expr')
        log.append({'step': 'R7e', 'line': sf.line_of(T[a].start), 'abstracted_unverified': m.group(0)[:400], 'replaced_by': repl})
        dropped.append((T[a].start, T[e].end))

    # ---- R7w: postfix abstraction (see the directive).  E.<postfix>  ->  FUNC(E)
    for (rx_start, rx_post, func, want_sha, optional) in spec.get('wrap_postfix', []):
        live = [j for j in range(bo + 1, bc) if alive(T[j]) and T[j].kind != 'comment']
        offs, acc = [], 0
        for j in live:
            offs.append(acc)
            acc += len(T[j].text)
        compact_txt = ''.join(T[j].text for j in live)
        ms = [m for m in re.finditer(rx_start, compact_txt) if m.start() in offs]
        mp = [m for m in re.finditer(rx_post, compact_txt) if m.start() in offs and (m.end() in offs or m.end() == acc)]
        if optional and len(ms) == 0:
            log.append({'step': 'R7w', 'skipped': f'receiver /{rx_start}/ not in the body; nothing abstracted'})
            continue
        if len(ms) != 1 or len(mp) != 1 or mp[0].start() <= ms[0].start():
            raise ExtractError(f'lost anchor: postfix /{rx_start}/ /{rx_post}/ in {spec["name"]} ({len(ms)}, {len(mp)} matches)')
        a = live[offs.index(ms[0].start())]
        pa = live[offs.index(mp[0].start())]
        pe_idx = offs.index(mp[0].end()) if mp[0].end() in offs else len(live)
        pe = live[pe_idx - 1]
        depth = 0
        for j in range(a, pa):
            if T[j].kind == 'punct' and T[j].text in '([{':
                depth += 1
            elif T[j].kind == 'punct' and T[j].text in ')]}':
                depth -= 1
                if depth < 0:
                    break
        if depth != 0:
            raise ExtractError(f'R7w refused: the receiver of /{rx_post}/ in {spec["name"]} is not bracket-balanced')
        have_sha = hashlib.sha256(mp[0].group(0).encode()).hexdigest()[:16]
        if have_sha != want_sha:
            raise ExtractError(f'abstracted expression /{rx_post}/ in {spec["name"]} changed (sha {have_sha}, reviewed {want_sha})')
        # (`FUNC` may carry leading arguments: `= f(i,` gives `f(i, <receiver>)`)
        edits.add(T[a].start, T[a].start, func + ('(' if '(' not in func else ' '), 'rewrite', 'R7w open')
        edits.add(T[pa].start, T[pe].end, ')', 'rewrite', 'R7e abstract expr')
        dropped.append((T[pa].start, T[pe].end))
        log.append({'step': 'R7w', 'line': sf.line_of(T[pa].start), 'abstracted_unverified': mp[0].group(0)[:200],
                    'replaced_by': func + '(<receiver>)'})

    # ---- R8: byte-string literal naming.  `b"left"` -> `verif_bytes_6c656674()`, a generated accessor
    # `fn verif_bytes_6c656674() -> (r: &'static [u8]) ensures r@ =~= seq![108u8, ..] { b"left" }` whose body
    # IS the literal (external_body only because Verus has no model of literal bytes).  Printable ASCII
    # literals without escapes only; anything else is left alone.
    byte_lits = {}
    if spec.get('name_bytes'):
        for j in range(bo + 1, bc):
            t = T[j]
            if t.kind == 'str' and alive(t) and re.fullmatch(r'b"[\x20-\x21\x23-\x5b\x5d-\x7e]*"', t.text):
                content = t.text[2:-1]
                nm = 'verif_bytes_' + (content.encode().hex() or 'empty')
                byte_lits[nm] = content
                edits.add(t.start, t.end, nm + '()', 'rewrite', 'R8 bytes')
                log.append({'step': 'R8', 'line': sf.line_of(t.start), 'before': t.text, 'after': nm + '()'})

    # ---- R5: type ascription on a `let` binding (`let mut v = Vec::new()` -> `let mut v: T = ..`).
    # Semantically neutral: rustc rejects the unit if T is not the inferred type.
    for (var, ty) in spec.get('ascribe', []):
        hits = []
        for j in range(bo + 1, bc):
            if is_id(T[j], 'let') and alive(T[j]):
                k = j + 1
                if is_id(T[k], 'mut'):
                    k += 1
                if is_id(T[k], var) and is_p(T[k + 1], '='):
                    hits.append(k)
        nth_ = 1
        if isinstance(ty, tuple):
            ty, nth_ = ty
        elif len(hits) != 1:
            raise ExtractError(f'lost anchor: let {var} (ascribe) in {spec["name"]} ({len(hits)} matches)')
        if nth_ > len(hits):
            raise ExtractError(f'lost anchor: let {var} #{nth_} (ascribe) in {spec["name"]} ({len(hits)} matches)')
        k = hits[nth_ - 1]
        edits.add(T[k].end, T[k].end, f': {ty}', 'rewrite', 'R5 ascribe')
        log.append({'step': 'R5', 'line': sf.line_of(T[k].start), 'ascribed': f'{var}: {ty}'})

    # ---- E5: signature
    # return type
    sig_ret = None
    j = fn_kw
    while j < bo:
        if T[j].kind == 'punct' and T[j].text in '([':
            j = sf.pairs[j] + 1
            continue
        if is_p(T[j], '-') and is_p(T[j + 1], '>'):
            sig_ret = j
            break
        j += 1
    if spec['ret']:
        if sig_ret is None:
            raise ExtractError(f'{spec["name"]}: #ret given but fn returns ()')
        k = sig_ret + 2
        e = k
        depth = 0
        while e < bo:
            if T[e].kind == 'punct' and T[e].text in '([':
                e = sf.pairs[e] + 1
                continue
            if is_id(T[e], 'where'):
                break
            e += 1
        edits.add(T[k].start, T[k].start, f'{GB}({spec["ret"]}: {GE}', 'ghost', 'ret name')
        edits.add(T[e - 1].end, T[e - 1].end, f'{GB}){GE}', 'ghost', 'ret name')
    # (an empty marker pair is emitted even without a contract: it anchors the vacuity canary)
    edits.add(T[bo].start, T[bo].start, f'\n{GB}\n{spec["spec"]}\n{GE}\n', 'ghost', 'spec')

    # ---- R12: `mut self` receiver (by value).  Verus rejects it; `fn f(mut self, ..) { B }` is the same function as
    # `fn f(self, ..) { let mut verif_self = self; B[self := verif_self] }`.  In the spec, `self` keeps meaning the
    # value at entry.
    for k in range(fn_kw, bo):
        if is_id(T[k], 'mut') and is_id(T[k + 1], 'self') and not is_p(T[k - 1], '&') and alive(T[k]):
            edits.add(T[k].start, T[k + 1].start, '', 'rewrite', 'R12 mut self')
            edits.add(T[bo].end, T[bo].end, ' let mut verif_self = self; ', 'rewrite', 'R12 mut self')
            n_self = 0
            for j in range(bo + 1, bc):
                if is_id(T[j], 'self') and alive(T[j]):
                    edits.add(T[j].start, T[j].end, 'verif_self', 'rewrite', 'R12 mut self')
                    n_self += 1
            log.append({'step': 'R12', 'line': sf.line_of(T[k].start), 'before': 'fn f(mut self, ..) { B }',
                        'after': f'fn f(self, ..) {{ let mut verif_self = self; B }} ({n_self} occurrences of `self` renamed)'})
            break

    # ---- R2: `for (i, x) in E.iter().enumerate() { B }`
    #        ->  `let mut i = 0; while i < E.len() { let x = &E[i]; B i += 1; }`
    # std semantics of Enumerate<slice::Iter> (optionally over Zip, optionally Skip); a `continue;` of the
    # loop itself is rewritten to step the index first; refused if E is not a plain path expression.
    lps0 = [i for i in loops_in(sf, bo + 1, bc) if alive(T[i])]
    for n_ in spec.get('enum_loops', []):
        if n_ - 1 >= len(lps0):
            raise ExtractError(f'lost anchor: loop {n_} (enumerate) of {spec["name"]}')
        li = lps0[n_ - 1]
        b = find_block_open(sf, li + 1, bc)
        be = sf.pairs[b]
        hdr = T[li:b]
        # expected token shapes:
        #   A: for ( I , X ) in PATH . iter ( ) . enumerate ( ) [ . skip ( K ) ]
        #   B: for ( I , ( X , Y ) ) in PATH . iter ( ) . zip ( PATH2 ) . enumerate ( ) [ . skip ( K ) ]
        #      (PATH2 a Vec / &Vec: `zip` takes IntoIterator, a &Vec yields references; Zip stops at the
        #       shorter side; Enumerate numbers from 0 and Skip(K) drops the first K pairs, so the first
        #       index seen is K)
        txt = ' '.join(t.text for t in hdr)
        PATH = r'((?:\w+ \. )*\w+)'
        mA = re.fullmatch(r'for \( (\w+) , (\w+) \) in ' + PATH + r' \. iter \( \) \. enumerate \( \)(?: \. skip \( (\w+) \))?', txt)
        mB = re.fullmatch(r'for \( (\w+) , \( (\w+) , (\w+) \) \) in ' + PATH + r' \. iter \( \) \. zip \( (?:& )?' + PATH
                          + r' \) \. enumerate \( \)(?: \. skip \( (\w+) \))?', txt)
        #   C: for X in <EXPR> . into_iter ( ) . rev ( )      (by-value reverse iteration over a Vec)
        #      -> let verif_rev_N = <EXPR>; let mut verif_k_N = verif_rev_N.len();
        #         while verif_k_N > 0 { verif_k_N -= 1; let X = &verif_rev_N[verif_k_N]; B }
        #      X becomes a REFERENCE to the element: rustc rejects the unit if B moves out of X, so the
        #      rewrite is only accepted for bodies that use X by reference / copy its fields
        mC = re.fullmatch(r'for (\w+) in (.+) \. into_iter \( \) \. rev \( \)', txt)
        #   D: for X in <EXPR> . into_iter ( )               (by-value forward iteration over a Vec)
        #      -> let verif_rev_N = <EXPR>; let mut verif_k_N = 0;
        #         while verif_k_N < verif_rev_N.len() { let X = &verif_rev_N[verif_k_N]; verif_k_N += 1; B }
        #      (same variable names as shape C, so that an annotation written for the reverse loop is checked
        #       against the forward loop instead of losing its anchor)
        mD = None if mC else re.fullmatch(r'for (\w+) in (.+) \. into_iter \( \)', txt)
        #   D': for X in PATH   (a plain path expression: `for x in v` IS `for x in v.into_iter()`)
        mD2 = None if (mA or mB or mC or mD) else re.fullmatch(r'for (\w+) in ' + PATH, txt)
        #   E: for I in ( 0 .. <EXPR> ) . rev ( )            (descending index range; EXPR is evaluated once)
        #      -> let mut I = <EXPR>; while I > 0 { I -= 1; B }
        mE = re.fullmatch(r'for (\w+) in \( 0 \. \. (.+) \) \. rev \( \)', txt)
        #   F: for ( X , Y ) in PATH . iter ( ) . zip ( PATH2 )       (no enumerate; PATH2 a Vec given by value or a &Vec)
        #      -> let mut verif_k_N = 0; while verif_k_N < PATH.len() && verif_k_N < PATH2.len()
        #         { let X = &PATH[verif_k_N]; let Y = &PATH2[verif_k_N]; verif_k_N += 1; B }
        #      Y becomes a REFERENCE to the element of PATH2 (zip over a Vec by value yields the elements themselves): rustc
        #      rejects the unit if B moves out of Y, so this is only accepted for bodies that read Y's fields
        mF = re.fullmatch(r'for \( (\w+) , (\w+) \) in ' + PATH + r' \. iter \( \) \. zip \( (?:& )?' + PATH + r' \)', txt)
        if mF and not (mA or mB or mC or mD or mD2 or mE):
            xvar, yvar = mF.group(1), mF.group(2)
            expr, expr2 = mF.group(3).replace(' ', ''), mF.group(4).replace(' ', '')
            ivar = f'verif_k_{n_}'
            head = f'let mut {ivar} = 0; while {ivar} < {expr}.len() && {ivar} < {expr2}.len() '
            bind = f' let {xvar} = &{expr}[{ivar}]; let {yvar} = &{expr2}[{ivar}]; {ivar} += 1;'
            edits.add(T[li].start, T[b].start, head, 'rewrite', 'R2 header')
            edits.add(T[b].end, T[b].end, bind, 'rewrite', 'R2 bind')
            log.append({'step': 'R2', 'line': sf.line_of(T[li].start), 'before': txt.replace(' ', ''),
                        'after': head + '{' + bind + ' .. }'})
            continue
        if mE and not (mA or mB or mC or mD):
            ivar = mE.group(1)
            k_in = li + 1
            while not is_id(T[k_in], 'in'):
                k_in += 1
            # tokens: in ( 0 . . EXPR ) . rev ( )   -> EXPR = from the 5th token after `in` to the `)` closing the range
            expr_src = sf.text[T[k_in + 5].start:T[b - 5].start].strip()
            head = f'let mut {ivar} = {expr_src}; while {ivar} > 0 '
            bind = f' {ivar} -= 1;'
            edits.add(T[li].start, T[b].start, head, 'rewrite', 'R2 header')
            edits.add(T[b].end, T[b].end, bind, 'rewrite', 'R2 bind')
            log.append({'step': 'R2', 'line': sf.line_of(T[li].start), 'before': txt.replace(' ', ''),
                        'after': head + '{' + bind + ' .. }'})
            continue
        if mD2:
            mD = mD2
        if not (mA or mB or mC or mD):
            raise ExtractError(f'R2 does not apply to loop {n_} of {spec["name"]}: {txt}')
        if (mC or mD) and not (mA or mB):
            xvar = (mC or mD).group(1)
            k_in = li + 1
            while not is_id(T[k_in], 'in'):
                k_in += 1
            # expression text: tokens after `in` up to the `. into_iter ( ) [. rev ( )]` suffix (8 / 4 tokens)
            expr_src = sf.text[T[k_in + 1].start:T[b - (8 if mC else (4 if not mD2 else 0))].start].strip() if not mD2 else \
                sf.text[T[k_in + 1].start:T[b].start].strip()
            ivar = f'verif_k_{n_}'
            vvar = f'verif_rev_{n_}'
            amp = '' if n_ in spec.get('enum_loops_copy', []) else '&'
            if mC:
                head = f'let {vvar} = {expr_src}; let mut {ivar} = {vvar}.len(); while {ivar} > 0 '
                bind = f' {ivar} -= 1; let {xvar} = {amp}{vvar}[{ivar}];'
            else:
                head = f'let {vvar} = {expr_src}; let mut {ivar} = 0; while {ivar} < {vvar}.len() '
                bind = f' let {xvar} = {amp}{vvar}[{ivar}]; {ivar} += 1;'
            # (`continue` / `break` need no rewriting in shapes C / D: the index is stepped at the top of the body,
            #  before the element is bound, so jumping to the loop test or out of the loop leaves it as the iterator would)
            edits.add(T[li].start, T[b].start, head, 'rewrite', 'R2 header')
            edits.add(T[b].end, T[b].end, bind, 'rewrite', 'R2 bind')
            log.append({'step': 'R2', 'line': sf.line_of(T[li].start), 'before': txt.replace(' ', ''),
                        'after': head + '{' + bind + ' .. }'})
            continue
        if mA:
            ivar, xvar, expr = mA.group(1), mA.group(2), mA.group(3).replace(' ', '')
            head = f'let mut {ivar} = {mA.group(4) or "0"}; while {ivar} < {expr}.len() '
            bind = f' let {xvar} = &{expr}[{ivar}];'
        else:
            ivar, xvar, yvar = mB.group(1), mB.group(2), mB.group(3)
            expr, expr2, start = mB.group(4).replace(' ', ''), mB.group(5).replace(' ', ''), mB.group(6) or '0'
            amp2 = '&'
            if re.fullmatch(r'\w+', expr2):
                # shape B2: the zip argument is a local bound by `let Q = PATH2.iter().copied();` (Copied<slice::Iter>:
                # yields the elements BY VALUE, in order): use PATH2 directly, bind by value, drop the `let`.
                # Accepted only if Q occurs nowhere else in the body.
                occ = [k for k in range(bo + 1, bc) if is_id(T[k], expr2) and alive(T[k])]
                lets = [k for k in occ if is_id(T[k - 1], 'let') and is_p(T[k + 1], '=')]
                if len(lets) == 1 and len(occ) == 2:
                    k0 = lets[0]
                    k1 = k0 + 2
                    while not is_p(T[k1], ';'):
                        k1 += 1
                    rhs = ' '.join(t.text for t in T[k0 + 2:k1])
                    mQ = re.fullmatch(PATH + r' \. iter \( \) \. copied \( \)', rhs)
                    if mQ:
                        edits.add(T[k0 - 1].start, T[k1].end, '', 'rewrite', 'R2 zip-source let')
                        dropped.append((T[k0 - 1].start, T[k1].end))
                        expr2 = mQ.group(1).replace(' ', '')
                        amp2 = ''
            head = f'let mut {ivar} = {start}; while {ivar} < {expr}.len() && {ivar} < {expr2}.len() '
            bind = f' let {xvar} = &{expr}[{ivar}]; let {yvar} = {amp2}{expr2}[{ivar}];'
        # `continue` of THIS loop (not of a nested loop) must still step the index
        nested = []
        for lj in loops_in(sf, b + 1, be):
            nb = find_block_open(sf, lj + 1, be)
            nested.append((nb, sf.pairs[nb]))
        for k in range(b, be):
            if is_id(T[k], 'continue') and not any(lo_ < k < hi_ for lo_, hi_ in nested):
                if not is_p(T[k + 1], ';'):
                    raise ExtractError(f'R2 refused: labelled/expression `continue` in loop {n_} of {spec["name"]}')
                edits.add(T[k].start, T[k].start, f'{{ {ivar} += 1; ', 'rewrite', 'R2 continue')
                edits.add(T[k + 1].end, T[k + 1].end, ' }', 'rewrite', 'R2 continue')
        edits.add(T[li].start, T[b].start, head, 'rewrite', 'R2 header')
        edits.add(T[b].end, T[b].end, bind, 'rewrite', 'R2 bind')
        edits.add(T[be].start, T[be].start, f' {ivar} += 1; ', 'rewrite', 'R2 step')
        log.append({'step': 'R2', 'line': sf.line_of(T[li].start), 'before': txt.replace(' ', ''),
                    'after': head + '{' + bind + f' .. {ivar} += 1; }} (each `continue;` of this loop -> {{ {ivar} += 1; continue; }})'})

    # ---- E5: loops
    lps = [i for i in loops_in(sf, bo + 1, bc) if alive(T[i])]
    for n_, inv in spec['loops'].items():
        if n_ - 1 >= len(lps) and n_ in spec.get('loops_opt', ()) and n_ == max(spec['loops']) and n_ - 1 == len(lps):
            log.append({'step': 'E5', 'skipped': f'loop {n_} not in the body; annotation dropped'})
            continue
        if n_ - 1 >= len(lps):
            raise ExtractError(f'lost anchor: loop {n_} of {spec["name"]} (body has {len(lps)})')
        li = lps[n_ - 1]
        b = find_block_open(sf, li + 1, bc)
        m_it = re.match(r'\s*@iter\s+(\w+)\s*\n', inv)
        if m_it:
            # Verus ghost-iterator name:  `for x in NAME: expr`  (ghost-only syntax)
            inv = inv[m_it.end():]
            if not is_id(T[li], 'for'):
                raise ExtractError(f'@iter on a non-for loop {n_} of {spec["name"]}')
            k_in = li + 1
            while not is_id(T[k_in], 'in'):
                k_in = sf.pairs[k_in] + 1 if (T[k_in].kind == 'punct' and T[k_in].text in '([{') else k_in + 1
            edits.add(T[k_in].end, T[k_in].end, f' {GB}{m_it.group(1)}: {GE}', 'ghost', f'loop {n_} iter name')
        edits.add(T[b].start, T[b].start, f'\n{GB}\n{inv}\n{GE}\n', 'ghost', f'loop {n_}')
    # a body loop without annotation is allowed (Verus will demand decreases) but recorded
    for idx, li in enumerate(lps, 1):
        if idx not in spec['loops']:
            log.append({'step': 'note', 'loop_without_invariant': idx,
                        'line': sf.line_of(T[li].start)})

    # ---- E5 / R1: closures
    cls = [i for i in closures_in(sf, bo + 1, bc) if alive(T[i])]
    for n_, c in spec['closures'].items():
        if n_ - 1 >= len(cls):
            if c.get('match'):
                # annotation tied to a particular closure text: the closure is gone, nothing to annotate
                log.append({'step': 'note', 'closure_annotation_skipped': n_, 'reason': 'closure not present'})
                continue
            raise ExtractError(f'lost anchor: closure {n_} of {spec["name"]} (body has {len(cls)})')
        ci = cls[n_ - 1]
        plo, phi, blo, bhi = closure_parts(sf, ci)
        if c.get('match'):
            ctext = ' '.join(sf.text[T[ci].start:T[bhi - 1].end].split())
            if not re.search(c['match'], ctext):
                log.append({'step': 'note', 'closure_annotation_skipped': n_, 'reason': f'closure text {ctext[:60]!r} does not match'})
                continue
        ptext = sf.text[T[plo].start:T[phi].start] if plo < phi else ''
        pre_body = ''
        if c['param']:
            newp = c['param']
            pname = newp.split(':')[0].strip()
            if re.fullmatch(r'\w+', ptext.strip()) and ptext.strip() == pname:
                # pure type ascription  |x| -> |x: T|
                edits.add(T[plo].start, T[phi].start, f'{ptext.strip()}{GB}:{newp.split(":", 1)[1]}{GE}',
                          'ghost', 'closure param type')
            else:
                # R1: pattern parameter -> named parameter + let-pattern
                edits.add(T[plo].start, T[phi].start, newp, 'rewrite', 'R1 param')
                pre_body = f'let {ptext.strip()} = {pname}; '
                log.append({'step': 'R1', 'line': sf.line_of(T[ci].start),
                            'before': f'|{ptext.strip()}|', 'after': f'|{newp}| {{ let {ptext.strip()} = {pname}; .. }}'})
        ann = ''
        if c['ret']:
            ann += f' -> ({c["ret"]})'
        if c['spec'].strip():
            ann += f' {c["spec"].strip()}'
        body_is_block = is_p(T[blo], '{')
        if body_is_block and not pre_body:
            edits.add(T[blo].start, T[blo].start, f'{GB}{ann} {GE}', 'ghost', f'closure {n_}')
        else:
            # wrap expression body in a block (needed to attach ensures); braces are
            # semantically neutral around an expression
            edits.add(T[blo].start, T[blo].start, f'{GB}{ann} {GE}{{ {pre_body}', 'rewrite', f'closure {n_} wrap')
            edits.add(T[bhi - 1].end, T[bhi - 1].end, ' }', 'rewrite', f'closure {n_} wrap')
            log.append({'step': 'R1b', 'line': sf.line_of(T[ci].start),
                        'note': 'closure expression body wrapped in { } to carry ensures'})

    # ---- E5: proof splices
    body_text_lo = T[bo].end
    body_text = sf.text[body_text_lo:T[bc].start]
    for (where, pat, txt) in spec['proofs']:
        check_ghost_stmt(txt)
        # an anchor inside a dropped / abstracted region is gone; an `after` anchor may START inside an
        # abstracted statement (R6/R7) as long as it ENDS behind it (typically on the closing `;`)
        ms = [m for m in re.finditer(pat, body_text)
              if not any((s < body_text_lo + m.start() < e) if where == 'before' else (s <= body_text_lo + m.end() - 1 < e)
                         for (s, e) in dropped)]
        if len(ms) != 1:
            raise ExtractError(f'lost anchor: /{pat}/ matches {len(ms)} times in {spec["name"]}')
        off = body_text_lo + (ms[0].start() if where == 'before' else ms[0].end())
        edits.add(off, off, f'\n{GB}\n{txt}\n{GE}\n', 'ghost', 'proof')

    lo_off, hi_off = T[first].start, T[bc].end
    src_text = sf.text[lo_off:hi_off]
    out = edits.apply(src_text, lo_off)
    # fidelity check: strip ghost regions from `out`; compare with source after
    # drop+rewrite edits only
    stripped = re.sub(re.escape(GB) + r'.*?' + re.escape(GE), ' ', out, flags=re.S)
    ref = edits.apply(src_text, lo_off, kinds=('drop', 'rewrite'))
    ref = re.sub(re.escape(GB) + r'.*?' + re.escape(GE), ' ', ref, flags=re.S)
    if norm(lex(stripped)) != norm(lex(ref)):
        raise ExtractError(f'fidelity check failed for {spec["name"]}')
    # and the drop-only view must be a token subsequence of the source
    exec_sha = hashlib.sha256(norm(lex(edits.apply(src_text, lo_off, kinds=('drop',)))).encode()).hexdigest()
    header = loc['impl_header']
    return {
        'text': out, 'impl_header': header, 'log': log, 'sha256': exec_sha,
        'file': spec['file'], 'line': sf.line_of(T[fn_kw].start),
        'end_line': sf.line_of(T[bc].start), 'name': spec['name'],
        'loops': len(lps), 'closures': len(cls), 'byte_lits': byte_lits,
    }


def extract_const(repo, spec):
    path = os.path.join(repo, spec['file'])
    if not os.path.exists(path):
        raise ExtractError(f'lost anchor: file {spec["file"]}')
    sf = SourceFile.get(path)
    T = sf.toks
    hits = []
    for i, t in enumerate(T):
        if is_id(t, 'const') and i + 2 < len(T) and is_id(T[i + 1], spec['name']) and is_p(T[i + 2], ':'):
            e = i
            while not is_p(T[e], ';'):
                e = sf.pairs[e] + 1 if (T[e].kind == 'punct' and T[e].text in '([{') else e + 1
            hits.append((i, e))
    if len(hits) != 1:
        raise ExtractError(f'lost anchor: const {spec["name"]} in {spec["file"]} ({len(hits)} matches)')
    i, e = hits[0]
    text = 'pub ' + sf.text[T[i].start:T[e].end]
    if spec.get('value'):
        k = i + 3
        while not is_p(T[k], '='):
            k += 1
        ty = sf.text[T[i + 3].start:T[k].start].strip()
        expr = sf.text[T[k + 1].start:T[e].start].strip()
        hint = f'proof {{ {spec["hint"]} }} ' if spec.get('hint') else ''
        text = (f'pub exec const {spec["name"]}: {ty}\n{GB}\n    ensures {spec["name"]} == {spec["value"]}\n{GE}\n'
                f'{{ {GB}{hint}{GE}{expr} }}')
    return {'text': text, 'file': spec['file'], 'line': sf.line_of(T[i].start), 'name': spec['name'],
            'log': [{'step': 'E4', 'note': 'visibility of the const item normalised to pub; written as `exec const` with its value as postcondition'}]}


def extract_type(repo, spec, features):
    path = os.path.join(repo, spec['file'])
    if not os.path.exists(path):
        raise ExtractError(f'lost anchor: file {spec["file"]}')
    sf = SourceFile.get(path)
    first, k, kw, end = find_type(sf, spec['tkind'], spec['name'], features)
    T = sf.toks
    log = []
    edits = Edits()
    if first < kw:
        edits.add(T[first].start, T[kw].start, '', 'drop', 'attrs+vis')
    collect_cfg_edits(sf, kw, end, features, edits, log)
    # drop field visibility and explicit discriminants on data-carrying variants
    body_open = None
    for j in range(kw, end):
        if is_p(T[j], '{') or is_p(T[j], '('):
            body_open = j
            break
    if body_open is not None:
        bc = sf.pairs[body_open]
        j = body_open + 1
        while j < bc:
            t = T[j]
            if t.kind == 'punct' and t.text in '([{':
                j = sf.pairs[j] + 1
                continue
            if is_id(t, 'pub'):
                e = j + 1
                if is_p(T[e], '('):
                    e = sf.pairs[e] + 1
                edits.add(t.start, T[e].start, '', 'drop', 'field vis')
                j = e
                continue
            if spec['tkind'] == 'enum' and is_p(t, '=') and T[j + 1].kind == 'num' and (
                    is_p(T[j + 2], ',') or j + 2 == bc):
                if 'keep-discriminants' not in spec['opts']:
                    edits.add(T[j - 1].end, T[j + 1].end, '', 'drop', 'discriminant')
            j += 1
    # nested visibility inside tuple-variant parens
    for j in range(kw, end):
        if is_id(T[j], 'pub') and sf.parent[j] is not None and sf.parent[j] != body_open:
            e = j + 1
            if is_p(T[e], '('):
                e = sf.pairs[e] + 1
            edits.add(T[j].start, T[e].start, '', 'drop', 'field vis')
    # E4': everything extracted lives in one module; normalise visibility to `pub`
    # (Verus requires types mentioned in trait-impl contracts to be visible everywhere)
    pre_attrs = ''
    for o in spec['opts']:
        if o.startswith('reject-recursive='):   # Verus-only type-parameter annotation (no runtime meaning)
            pre_attrs += ''.join(f'#[verifier::reject_recursive_types({x})] ' for x in o.split('=', 1)[1].split(','))
    edits.add(T[kw].start, T[kw].start, pre_attrs + 'pub ', 'rewrite', 'vis')
    if body_open is not None and spec['tkind'] == 'struct':
        bc = sf.pairs[body_open]
        j = body_open + 1
        at_start = True
        angle = 0
        while j < bc:
            t = T[j]
            a = attr_span(sf, j)
            if at_start and a is not None:
                j = a
                continue
            if at_start:
                # a field removed by cfg is inside a dropped region: the insertion is dropped too
                k2 = j
                if is_id(T[k2], 'pub'):
                    k2 += 1
                    if is_p(T[k2], '('):
                        k2 = sf.pairs[k2] + 1
                edits.add(T[k2].start, T[k2].start, 'pub ', 'rewrite', 'field vis')
                at_start = False
            if t.kind == 'punct' and t.text in '([{':
                j = sf.pairs[j] + 1
                continue
            if is_p(t, '<'):
                angle += 1
            elif is_p(t, '>') and not (is_p(T[j - 1], '-') or is_p(T[j - 1], '=')):
                angle -= 1
            if is_p(t, ',') and angle == 0:
                at_start = True
            j += 1
    lo, hi = T[first].start, (T[end].start if end < len(T) else len(sf.text))
    out = edits.apply(sf.text[lo:hi], lo)
    # doc comments are attributes: one left in front of a field removed by E2 would dangle
    out = re.sub(r'(?m)^(\s*)///', r'\1// ', out)
    # D1/D2: the source item's own #[derive(..)] list decides which assumed impls may be emitted
    derives = set()
    j = first
    while j < k:
        nxt = attr_span(sf, j)
        if nxt is None:
            break
        if is_id(T[j + 2], 'derive'):
            derives |= {t.text for t in T[j + 3:nxt] if t.kind == 'ident'}
        j = nxt
    extra = ''
    nm = spec['name']
    if 'derive-eq' in spec['opts']:
        if 'PartialEq' not in derives:
            raise ExtractError(f'{nm}: derive-eq requested but the source does not derive PartialEq')
        extra += (f'\n// D1 (assumed): #[derive(PartialEq)] on {nm} is structural equality\n'
                  f'impl vstd::std_specs::cmp::PartialEqSpecImpl for {nm} {{\n'
                  f'    open spec fn obeys_eq_spec() -> bool {{ true }}\n'
                  f'    open spec fn eq_spec(&self, other: &Self) -> bool {{ *self == *other }}\n}}\n'
                  f'impl PartialEq for {nm} {{ #[verifier::external_body] fn eq(&self, other: &Self) -> bool {{ unimplemented!() }} }}\n')
        log.append({'step': 'D1', 'assumed': f'derived PartialEq of {nm} is structural'})
    if 'derive-clone' in spec['opts']:
        if 'Clone' not in derives:
            raise ExtractError(f'{nm}: derive-clone requested but the source does not derive Clone')
        extra += (f'\n// D2 (assumed): #[derive(Clone)] on {nm} returns an equal value\n'
                  f'impl Clone for {nm} {{ #[verifier::external_body] fn clone(&self) -> (r: Self) ensures r == *self {{ unimplemented!() }} }}\n')
        log.append({'step': 'D2', 'assumed': f'derived Clone of {nm} returns an equal value'})
    return {'text': out.rstrip() + extra, 'log': log, 'file': spec['file'],
            'line': sf.line_of(T[kw].start), 'name': spec['name']}


class UnitResult:
    def __init__(self):
        self.text = ''
        self.functions = []
        self.types = []
        self.log = []
        self.line_map = []   # (unit_line_lo, unit_line_hi, fn id)


def build_unit(vc_path, repo):
    vc = parse_vc(vc_path)
    feats = vc['features'] or set(DEFAULT_FEATURES)
    res = UnitResult()
    parts = []
    byte_lits = {}
    if vc['header']:
        parts.append(vc['header'])
    parts.append('use vstd::prelude::*;\nverus! {\n')
    for sec in vc['sections']:
        cur_line = ''.join(parts).count('\n') + 1
        if sec['kind'] == 'raw':
            parts.append(sec['text'] + '\n')
        elif sec['kind'] == 'const':
            t = extract_const(repo, sec)
            res.types.append({k: t[k] for k in ('file', 'line', 'name', 'log')})
            body_c = f'// extracted: {t["file"]}:{t["line"]}\n' + t['text'] + '\n'
            if sec.get('id') and sec.get('value'):
                # a const whose value is proved is an obligation of its own
                res.line_map.append((cur_line, cur_line + body_c.count('\n'), sec['id']))
                res.functions.append({'id': sec['id'], 'file': t['file'], 'line': t['line'], 'end_line': t['line'],
                                      'name': 'const ' + t['name'], 'sha256': hashlib.sha256(t['text'].encode()).hexdigest(),
                                      'loops': 0, 'closures': 0, 'log': t['log']})
            parts.append(body_c + '\n')
        elif sec['kind'] == 'type':
            t = extract_type(repo, sec, feats)
            res.types.append({k: t[k] for k in ('file', 'line', 'name', 'log')})
            parts.append(f'// extracted: {t["file"]}:{t["line"]}\n' + t['text'] + '\n\n')
        elif sec['kind'] == 'fn':
            f = extract_fn(repo, sec, feats)
            byte_lits.update(f.get('byte_lits', {}))
            wrap = sec['wrap'] if sec['wrap'] is not None else f['impl_header']
            body = f'// extracted: {f["file"]}:{f["line"]}-{f["end_line"]}\n' + sec['attrs'] + f['text'] + '\n'
            mode = sec.get('wrap_mode')
            if mode == 'inner':
                pass
            elif mode == 'close':
                body = f'{body}}}\n'
            elif wrap and wrap != '-':
                closing = '' if mode == 'open' else '}\n'
                if '{' in wrap:   # wrap text opens the block itself (may declare sibling items)
                    body = f'{wrap}\n{body}{closing}'
                else:
                    body = f'{wrap} {{\n{body}{closing}'
            n_lines = body.count('\n')
            res.line_map.append((cur_line, cur_line + n_lines, sec['id'] or sec['name']))
            res.functions.append({'id': sec['id'] or sec['name'], 'file': f['file'],
                                  'line': f['line'], 'end_line': f['end_line'],
                                  'name': f['name'], 'sha256': f['sha256'],
                                  'loops': f['loops'], 'closures': f['closures'],
                                  'log': f['log']})
            parts.append(body + '\n')
    for nm, content in sorted(byte_lits.items()):
        seq = ', '.join(f'{b}u8' for b in content.encode())
        parts.append(f'// R8: generated accessor for the literal b"{content}" (its body IS the literal)\n'
                     f'#[verifier::external_body]\npub fn {nm}() -> (r: &\'static [u8; {len(content.encode())}]) ensures r@ =~= seq![{seq}] {{ b"{content}" }}\n')
    parts.append('\n} // verus!\nfn main() {}\n')
    res.text = ''.join(parts)
    return res


if __name__ == '__main__':
    import argparse
    ap = argparse.ArgumentParser()
    ap.add_argument('vc')
    ap.add_argument('--repo', default='/repo')
    ap.add_argument('-o', default=None)
    a = ap.parse_args()
    try:
        r = build_unit(a.vc, a.repo)
    except ExtractError as e:
        print('EXTRACT-ERROR:', e, file=sys.stderr)
        sys.exit(2)
    if a.o:
        with open(a.o, 'w') as f:
            f.write(r.text)
    else:
        sys.stdout.write(r.text)
    print(json.dumps({'functions': r.functions, 'types': r.types}, indent=1), file=sys.stderr)
