#!/usr/bin/env python3
"""Mechanical scan for every construct that is an assumption rather than a proof.

Verus units (.vc): external_body, assume_specification, assume(, admit(, external, axiom
Kani overlay / hooks: kani::stub (not stub_verified), kani::assume, unsafe
Each .vc declares the counts it expects on a line
    ## assumptions: external_body=N assume_specification=N assume=N admit=N
and a mismatch makes the property UNDECIDED (exit 2): an assumption can not slip in silently.
"""
import json
import os
import re

PAT = {
    'external_body': re.compile(r'verifier::external_body|verifier::external\b'),
    'assume_specification': re.compile(r'\bassume_specification\b'),
    'assume': re.compile(r'\bassume\s*\('),
    'admit': re.compile(r'\badmit\s*\('),
    'derived_impl': re.compile(r'^#type .*\b(derive-eq|derive-clone)\b', re.M),
}


def strip_comments(text):
    text = re.sub(r'//[^\n]*', '', text)
    text = re.sub(r'^##[^\n]*', '', text, flags=re.M)
    return text


def scan_vc(path):
    raw = open(path).read()
    # inline #include files so that their assumptions are counted with the unit
    def _inc(m):
        ip = os.path.join(os.path.dirname(os.path.abspath(path)), m.group(1).strip())
        return open(ip).read() if os.path.exists(ip) else ''
    raw = re.sub(r'^#include\s+(\S+)\s*$', _inc, raw, flags=re.M)
    decl = {}
    m = re.search(r'^## assumptions:(.*)$', raw, re.M)
    if m:
        for kv in m.group(1).split():
            k, v = kv.split('=')
            decl[k] = int(v)
    body = strip_comments(raw)
    found = {k: len(p.findall(body)) for k, p in PAT.items()}
    lines = []
    for i, ln in enumerate(raw.split('\n'), 1):
        s = strip_comments(ln)
        for k, p in PAT.items():
            if p.search(s):
                lines.append(f'{os.path.basename(path)}:{i}: {k}: {ln.strip()[:140]}')
    # for external_body items, also report the declared item on the following line(s)
    return decl, found, lines


def scan_kani(verif, pid, repo):
    out = []
    ov = os.path.join(verif, 'kani', 'overlay')
    for root, _, files in os.walk(ov):
        for fn in files:
            if not fn.endswith('.rs'):
                continue
            p = os.path.join(root, fn)
            txt = open(p).read()
            tag = pid.lower() + '_'
            # only report the file if it holds harnesses of this property
            if tag not in txt:
                continue
            for i, ln in enumerate(txt.split('\n'), 1):
                s = re.sub(r'//.*', '', ln)
                if re.search(r'kani::stub\s*\(', s):
                    out.append(f'{os.path.relpath(p, ov)}:{i}: kani stub (trusted replacement): {ln.strip()[:140]}')
                if re.search(r'\bunsafe\b', s):
                    out.append(f'{os.path.relpath(p, ov)}:{i}: unsafe in harness: {ln.strip()[:140]}')
    return out


def scan(verif, vcs, pid, repo):
    undeclared = []
    lines = []
    trusted = [
        'rustc 1.98.1 (Verus toolchain) / Kani 0.68 toolchain; Verus 0.2026.09.13 + bundled z3; CBMC 6.11 + CaDiCaL',
        'extractor steps E1-E6 and logged rewrites (engine/extract.py), token-level fidelity check on every run',
        'machine arithmetic is modelled exactly by both tools (no mathematical-integer abstraction of exec code)',
    ]
    for vc in vcs:
        if not os.path.exists(vc):
            undeclared.append(f'missing contract file {vc}')
            continue
        decl, found, ls = scan_vc(vc)
        for k, v in found.items():
            if decl.get(k, 0) != v:
                undeclared.append(f'{os.path.basename(vc)}: {k} declared {decl.get(k, 0)} found {v}')
        lines += ls
    klines = scan_kani(verif, pid, repo)
    lines += klines
    trusted += [f'{len(lines)} assumption sites listed under assumptions[] (opaque types, assumed callee/std specs, stubs)']
    return {'undeclared': undeclared, 'assumption_lines': lines, 'trusted_base': trusted}


if __name__ == '__main__':
    import sys
    print(json.dumps(scan(os.path.dirname(os.path.dirname(os.path.abspath(__file__))), sys.argv[2:], sys.argv[1], '/repo'), indent=1))
