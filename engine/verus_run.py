#!/usr/bin/env python3
"""Run Verus on an extracted unit and classify the outcome.

verdict per unit:
  'pass'       every function verified
  'fail'       at least one SEMANTIC failure (postcondition / precondition / assertion /
               invariant / overflow ...) and no tool failure
  'undecided'  extraction error, front-end error, rlimit, crash, timeout
"""
import json
import os
import re
import subprocess
import sys
import tempfile
import time

sys.path.insert(0, os.path.dirname(os.path.abspath(__file__)))
import extract  # noqa: E402
from extract import GB, GE  # noqa: E402

SEMANTIC = [
    'postcondition not satisfied',
    'precondition not satisfied',
    'assertion failed',
    'invariant not satisfied before loop',
    'invariant not satisfied at end of loop body',
    'possible arithmetic underflow/overflow',
    'possible division by zero',
    'possible bit shift underflow/overflow',
    'decreases not satisfied',
    'could not prove termination',
    'unreachable code may be reachable',   # unreached()
    'loop invariant not satisfied',
    'index out of bounds',
    'failed this postcondition',
    'unable to prove post-condition of closure',
    'unable to prove pre-condition of closure',
    'loop ensures not satisfied',
    'possible cast underflow/overflow',
]
TOOL_LIMIT = ['Resource limit (rlimit) exceeded', 'rlimit', 'timed out', 'out of memory']

VERUS = os.environ.get('VERUS_BIN', 'verus')


def classify(msg):
    for s in SEMANTIC:
        if s in msg:
            return 'semantic'
    for s in TOOL_LIMIT:
        if s in msg:
            return 'limit'
    if msg.startswith('aborting due to'):
        return 'noise'
    return 'frontend'


def run_verus(path, rlimit=None, timeout=600, extra=()):
    cmd = [VERUS, path, '--triggers-mode', 'silent', '--output-json', '--time',
           '--error-format=json', '--multiple-errors', '8', '--no-report-long-running']
    if rlimit:
        cmd += ['--rlimit', str(rlimit)]
    cmd += list(extra)
    t0 = time.time()
    try:
        p = subprocess.run(cmd, capture_output=True, text=True, timeout=timeout,
                           cwd=os.path.dirname(path))
    except subprocess.TimeoutExpired:
        return {'rc': None, 'timeout': True, 'diags': [], 'json': None, 'wall_s': time.time() - t0,
                'cmd': ' '.join(cmd), 'stderr': 'timeout'}
    diags = []
    for ln in p.stderr.split('\n'):
        ln = ln.strip()
        if ln.startswith('{'):
            try:
                d = json.loads(ln)
            except Exception:
                continue
            if d.get('$message_type') == 'diagnostic' and d.get('level') in ('error',):
                diags.append(d)
    js = None
    try:
        js = json.loads(p.stdout)
    except Exception:
        pass
    return {'rc': p.returncode, 'timeout': False, 'diags': diags, 'json': js,
            'wall_s': time.time() - t0, 'cmd': ' '.join(cmd), 'stderr': p.stderr[-4000:]}


def fn_breakdown(js):
    out = {}
    if not js:
        return out
    try:
        for m in js['times-ms']['smt']['smt-run-module-times']:
            for f in m.get('function-breakdown', []):
                name = f['function'].split('::', 1)[1] if '::' in f['function'] else f['function']
                cur = out.get(name)
                rec = {'success': f['success'], 'time_us': f.get('time-micros', 0), 'rlimit': f.get('rlimit', 0),
                       'mode': f.get('mode:', '')}
                if cur:
                    rec['success'] = rec['success'] and cur['success']
                    rec['time_us'] += cur['time_us']
                out[name] = rec
    except Exception:
        pass
    return out


def owner_of_line(line_map, line):
    for lo, hi, fid in line_map:
        if lo <= line <= hi:
            return fid
    return None


def make_canary_text(unit_text, variant):
    """variant 'entry': first statement of every extracted body becomes assert(false);
       variant 'exit' : `ensures false` appended to every extracted fn's spec.
    Done textually on the marker structure produced by the extractor."""
    out = unit_text
    if variant == 'entry':
        # spec block is immediately followed by the body's '{'
        out = re.sub(r'(' + re.escape(GE) + r'\n)(\{)(?=[^\n]*\n)', _entry_sub, out)
    return out


def _entry_sub(m):
    return m.group(1) + m.group(2) + ' assert(false); '


def analyse(unit, res, line_map):
    """-> dict(verdict, failures[], undecided_reasons[])"""
    failures = []
    undec = []
    if res['timeout']:
        undec.append('verus timeout')
    for d in res['diags']:
        msg = d['message']
        k = classify(msg)
        if k == 'noise':
            continue
        spans = d.get('spans', [])
        prim = [s for s in spans if s.get('is_primary')] or spans
        line = prim[0]['line_start'] if prim else None
        text = ' '.join(x['text'].strip() for x in prim[0]['text']) if prim else ''
        exit_txt = ''
        exit_line = None
        for s in spans:
            if (s.get('label') or '').startswith('at this exit') or (s.get('label') or '').startswith('at this call'):
                exit_line = s['line_start']
                exit_txt = ' '.join(x['text'].strip() for x in s['text'])
        # a failed callee precondition: the clause is the span labelled `failed precondition`; the primary span
        # (the call) is reported as the exit
        for s in spans:
            if (s.get('label') or '').startswith('failed precondition'):
                exit_txt = exit_txt or text
                text = ' '.join(x['text'].strip() for x in s['text'])
        owner = None
        for s in spans:
            o = owner_of_line(line_map, s['line_start'])
            if o:
                owner = o
        rec = {'message': msg, 'kind': k, 'line': line, 'clause': text[:300],
               'exit': exit_txt[:200], 'exit_line': exit_line, 'fn': owner,
               'rendered': d.get('rendered', '')[:3000]}
        if k == 'semantic':
            failures.append(rec)
        else:
            undec.append(f'{k}: {msg[:200]} (line {line})')
    js = res['json']
    if js is None and not res['timeout']:
        undec.append('no JSON result from verus: ' + res['stderr'][-300:])
    vr = (js or {}).get('verification-results', {})
    if vr.get('encountered-vir-error'):
        undec.append('VIR error')
    if undec:
        verdict = 'undecided'
    elif failures:
        verdict = 'fail'
    elif vr.get('success'):
        verdict = 'pass'
    else:
        verdict = 'undecided'
        undec.append('verus reported failure without diagnostics')
    return {'verdict': verdict, 'failures': failures, 'undecided': undec,
            'verified': vr.get('verified'), 'errors': vr.get('errors')}


def run_unit(vc_path, repo='/repo', workdir=None, canaries=True, rlimit=None, keep=False):
    name = os.path.basename(vc_path)[:-3]
    out = {'unit': name, 'vc': vc_path}
    try:
        u = extract.build_unit(vc_path, repo)
    except extract.ExtractError as e:
        out.update(verdict='undecided', undecided=[f'extract: {e}'], failures=[], functions=[],
                   wall_s=0.0)
        return out
    wd = workdir or tempfile.mkdtemp(prefix='verif-verus-', dir='/var/tmp')
    os.makedirs(wd, exist_ok=True)
    path = os.path.join(wd, name + '.rs')
    with open(path, 'w') as f:
        f.write(u.text)
    res = run_verus(path, rlimit=rlimit)
    an = analyse(u, res, u.line_map)
    bd = fn_breakdown(res['json'])
    out.update(an)
    out['functions'] = u.functions
    out['types'] = u.types
    out['unit_path'] = path
    out['cmd'] = res['cmd']
    out['wall_s'] = res['wall_s']
    out['breakdown'] = bd
    out['unit_text'] = u.text
    out['line_map'] = u.line_map
    # ---- vacuity canaries
    out['canaries'] = []
    if canaries and an['verdict'] in ('pass', 'fail'):
        ctext = make_canary_text(u.text, 'entry')
        cpath = os.path.join(wd, name + '__canary.rs')
        with open(cpath, 'w') as f:
            f.write(ctext)
        cres = run_verus(cpath, rlimit=rlimit)
        can = analyse(u, cres, u.line_map)
        hit = set()
        for fl in can['failures']:
            if fl['message'] == 'assertion failed' and 'assert(false)' in fl['clause']:
                hit.add(fl['fn'])
        for fn in u.functions:
            ok = fn['id'] in hit
            out['canaries'].append({'fn': fn['id'], 'kind': 'entry-reachable', 'ok': ok})
        out['wall_s'] += cres['wall_s']
        if any(not c['ok'] for c in out['canaries']):
            out['verdict'] = 'undecided'
            out['undecided'] = out.get('undecided', []) + [
                'vacuity canary verified (contradictory precondition or assumption) for: ' +
                ', '.join(c['fn'] for c in out['canaries'] if not c['ok'])]
    return out


if __name__ == '__main__':
    r = run_unit(sys.argv[1], repo=sys.argv[2] if len(sys.argv) > 2 else '/repo', workdir='/var/tmp/verif-dbg')
    r.pop('unit_text', None)
    print(json.dumps(r, indent=1, default=str))
