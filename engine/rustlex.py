"""Minimal Rust lexer + structural helpers used by the extractor.

Tokens keep their byte offsets in the source so that extraction is done by
slicing / splicing the ORIGINAL text (nothing is pretty-printed or re-typed).
"""
import re

IDENT_START = re.compile(r'[A-Za-z_]')
IDENT = re.compile(r'[A-Za-z_][A-Za-z0-9_]*')
NUMBER = re.compile(r'[0-9][0-9A-Za-z_]*(\.[0-9][0-9A-Za-z_]*)?')


class Tok:
    __slots__ = ('kind', 'text', 'start', 'end')

    def __init__(self, kind, text, start, end):
        self.kind = kind      # ident | num | str | char | life | punct | comment
        self.text = text
        self.start = start
        self.end = end

    def __repr__(self):
        return f'{self.kind}:{self.text!r}@{self.start}'


class LexError(Exception):
    pass


def lex(src, keep_comments=False):
    toks = []
    i = 0
    n = len(src)
    while i < n:
        c = src[i]
        if c in ' \t\r\n':
            i += 1
            continue
        if src.startswith('//', i):
            j = src.find('\n', i)
            if j < 0:
                j = n
            if keep_comments:
                toks.append(Tok('comment', src[i:j], i, j))
            i = j
            continue
        if src.startswith('/*', i):
            depth = 1
            j = i + 2
            while j < n and depth:
                if src.startswith('/*', j):
                    depth += 1
                    j += 2
                elif src.startswith('*/', j):
                    depth -= 1
                    j += 2
                else:
                    j += 1
            if keep_comments:
                toks.append(Tok('comment', src[i:j], i, j))
            i = j
            continue
        # raw strings / byte strings
        m = re.match(r'(b|c)?r(#*)"', src[i:i + 40])
        if m:
            hashes = m.group(2)
            close = '"' + hashes
            j = src.find(close, i + m.end())
            if j < 0:
                raise LexError('unterminated raw string')
            j += len(close)
            toks.append(Tok('str', src[i:j], i, j))
            i = j
            continue
        if c == '"' or (c in 'bc' and i + 1 < n and src[i + 1] == '"'):
            j = i + (2 if c != '"' else 1)
            while j < n and src[j] != '"':
                if src[j] == '\\':
                    j += 1
                j += 1
            j += 1
            toks.append(Tok('str', src[i:j], i, j))
            i = j
            continue
        if c == "'" or (c == 'b' and i + 1 < n and src[i + 1] == "'"):
            k = i + (1 if c == 'b' else 0)
            # char literal or lifetime
            m = re.match(r"'(\\.[^']*|[^'\\])'", src[k:k + 16])
            if m:
                j = k + m.end()
                toks.append(Tok('char', src[i:j], i, j))
                i = j
                continue
            m = re.match(r"'[A-Za-z_][A-Za-z0-9_]*", src[k:k + 64])
            if m and c == "'":
                j = k + m.end()
                toks.append(Tok('life', src[i:j], i, j))
                i = j
                continue
            raise LexError(f'bad quote at {i}')
        m = IDENT.match(src, i)
        if m:
            toks.append(Tok('ident', m.group(0), i, m.end()))
            i = m.end()
            continue
        m = NUMBER.match(src, i)
        if m:
            # do not swallow `..` of a range or a method call on an int literal
            txt = m.group(0)
            if '.' in txt and src.startswith('..', m.start() + txt.index('.')):
                txt = txt[:txt.index('.')]
            toks.append(Tok('num', txt, i, i + len(txt)))
            i += len(txt)
            continue
        toks.append(Tok('punct', c, i, i + 1))
        i += 1
    return toks


OPEN = {'(': ')', '[': ']', '{': '}'}
CLOSE = {')': '(', ']': '[', '}': '{'}


def match_delims(toks):
    """Return dict open_index -> close_index (and reverse) for (), [], {}."""
    stack = []
    pairs = {}
    for idx, t in enumerate(toks):
        if t.kind != 'punct':
            continue
        if t.text in OPEN:
            stack.append(idx)
        elif t.text in CLOSE:
            if not stack:
                raise LexError(f'unbalanced {t.text} at {t.start}')
            o = stack.pop()
            if OPEN[toks[o].text] != t.text:
                raise LexError(f'mismatched {toks[o].text} {t.text} at {t.start}')
            pairs[o] = idx
            pairs[idx] = o
    if stack:
        raise LexError('unbalanced open delimiter')
    return pairs


def is_p(t, s):
    return t.kind == 'punct' and t.text == s


def is_id(t, s):
    return t.kind == 'ident' and t.text == s


def norm(toks):
    """Whitespace-insensitive rendering of a token list (for comparison)."""
    return ' '.join(t.text for t in toks if t.kind != 'comment')
