#!/bin/sh
# Offline setup: warm the Kani build cache (scratch copy under /verif/work, git-ignored) and
# Verus's first-run cache.  Everything else is Python standard library.
set -e
cd "$(dirname "$0")"
export CARGO_NET_OFFLINE=true
mkdir -p work evidence replay
python3 engine/kani_run.py --warm || echo "kani warm-up failed (checks will build on demand)"
python3 engine/verus_run.py contracts/ratchet.vc >/dev/null 2>&1 || true
echo setup done
