use vstd::prelude::*;
verus! {

pub enum MlsError { PendingCommitNotFound, Codec, WrongPathLen, Storage }
pub enum CodecError { X }
impl From<CodecError> for MlsError { fn from(e: CodecError) -> Self { MlsError::Codec } }

#[verifier::external_body] pub struct GroupState { _p: u8 }
#[verifier::external_body] pub struct EpochSecrets { _p: u8 }
#[verifier::external_body] pub struct TreeKemPrivate { _p: u8 }
#[verifier::external_body] pub struct KeySchedule { _p: u8 }
#[verifier::external_body] pub struct SignatureSecretKey { _p: u8 }
#[verifier::external_body] pub struct CommitMessageDescription { _p: u8 }
#[verifier::external_body] pub struct LegacyPendingCommit { _p: u8 }
#[verifier::external_body] pub struct StateRepo { _p: u8 }

pub struct PendingCommit {
    pub state: GroupState,
    pub epoch_secrets: EpochSecrets,
    pub private_tree: TreeKemPrivate,
    pub key_schedule: KeySchedule,
    pub signer: SignatureSecretKey,
    pub output: CommitMessageDescription,
}

impl PendingCommit {
    #[verifier::external_body]
    fn mls_decode(reader: &mut &[u8]) -> (r: Result<PendingCommit, CodecError>) { unimplemented!() }
}

pub enum PendingCommitSnapshot { None, LegacyPendingCommit(Box<LegacyPendingCommit>), PendingCommit(Vec<u8>) }
impl core::default::Default for PendingCommitSnapshot { fn default() -> Self { PendingCommitSnapshot::None } }
pub struct CommitSecrets(pub PendingCommitSnapshot);

pub assume_specification<T: core::default::Default> [core::mem::take::<T>] (d: &mut T) -> (r: T)
  ensures r == *old(d);

pub struct Group {
    pub state_repo: StateRepo,
    pub state: GroupState,
    pub epoch_secrets: EpochSecrets,
    pub private_tree: TreeKemPrivate,
    pub key_schedule: KeySchedule,
    pub pending_commit: PendingCommitSnapshot,
    pub signer: SignatureSecretKey,
}

impl Group {
    #[verifier::external_body]
    fn insert_past_epoch(&mut self) -> (r: Result<(), MlsError>)
        ensures r.is_err() ==> *final(self) == *old(self),
                final(self).pending_commit == old(self).pending_commit, final(self).state == old(self).state,
    { unimplemented!() }

    pub fn apply_pending_commit(&mut self) -> (r: Result<CommitMessageDescription, MlsError>)
        ensures r.is_err() ==> *final(self) == *old(self)
    {
        let pending = core::mem::take(&mut self.pending_commit);
        self.apply_detached_commit(CommitSecrets(pending))
    }

    pub fn apply_detached_commit(
        &mut self,
        commit_secrets: CommitSecrets,
    ) -> (r: Result<CommitMessageDescription, MlsError>)
        ensures r.is_err() ==> *final(self) == *old(self)
    {
        let pending = match commit_secrets.0 {
            PendingCommitSnapshot::PendingCommit(bytes) => PendingCommit::mls_decode(&mut &*bytes)?,
            _ => return Err(MlsError::PendingCommitNotFound),
        };

        self.insert_past_epoch()?;

        self.state = pending.state;
        self.epoch_secrets = pending.epoch_secrets;
        self.private_tree = pending.private_tree;
        self.key_schedule = pending.key_schedule;
        self.signer = pending.signer;

        Ok(pending.output)
    }

    pub fn clear_pending_commit(&mut self) {
        self.pending_commit = Default::default()
    }
}

pub fn unfilter(filtered: &Vec<bool>, nodes: Vec<u32>) -> (r: Result<Vec<Option<u32>>, MlsError>)
    ensures r matches Ok(v) ==> v@.len() == filtered@.len()
{
    let mut unfiltered_nodes = vec![];
    let mut i = 0;

    for n in it: nodes
        invariant i == unfiltered_nodes@.len(), i <= filtered@.len(),
    {
        while *filtered.get(i).ok_or(MlsError::WrongPathLen)?
            invariant i == unfiltered_nodes@.len(), i <= filtered@.len(),
            decreases filtered@.len() - i
        {
            unfiltered_nodes.push(None);
            i += 1;
        }

        unfiltered_nodes.push(Some(n));
        i += 1;
    }
    Ok(unfiltered_nodes)
}

}
fn main() {}
