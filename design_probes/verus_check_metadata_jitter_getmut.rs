use vstd::prelude::*;
verus! {
pub enum MlsError { GroupIdMismatch, InvalidEpoch, ProtocolVersionMismatch }
#[derive(PartialEq, Eq, Clone, Copy)]
pub enum ContentType { Application, Proposal, Commit }
pub struct NodeVec(pub Vec<Option<u32>>);
impl NodeVec {
    pub fn blank_b(&mut self, i: usize)
        ensures final(self).0@.len() == old(self).0@.len()
    {
        if let Some(n) = self.0.get_mut(i) {
            *n = None
        }
    }
}
pub struct Ctx { pub group_id: Vec<u8>, pub epoch: u64 }
pub fn check(ctx: &Ctx, group_id: &Vec<u8>, epoch: u64, ct: ContentType) -> (r: Result<(), MlsError>)
    ensures r.is_ok() ==> group_id@ == ctx.group_id@ && (ct == ContentType::Commit ==> epoch == ctx.epoch)
{
    if group_id != &ctx.group_id {
        return Err(MlsError::GroupIdMismatch);
    }
    match ct {
        ContentType::Commit => {
            if ctx.epoch != epoch { Err(MlsError::InvalidEpoch) } else { Ok(()) }
        }
        _ => Ok(()),
    }?;
    let check_epoch = ct == ContentType::Commit;
    if check_epoch && epoch != ctx.epoch { return Err(MlsError::InvalidEpoch); }
    Ok(())
}
pub fn jitter(epoch: u64, j: Option<u64>) -> Option<u64> {
    j.map(|j| epoch - j)
}
}
fn main() {}
