use vstd::prelude::*;
verus! {

pub enum MlsError { A, B(u32), C }
pub enum CodecError { X }
impl From<CodecError> for MlsError { fn from(e: CodecError) -> Self { MlsError::C } }

#[verifier::external_body]
pub struct Opaque { _p: u8 }

pub assume_specification<T: core::default::Default> [core::mem::take::<T>] (d: &mut T) -> (r: T)
  ensures r == *old(d);

impl core::default::Default for Snap { fn default() -> Self { Snap::None } }
pub enum Snap { None, Legacy(Opaque), Pending(Vec<u8>) }

#[verifier::external_body]
fn decode(b: &Vec<u8>) -> (r: Result<Opaque, CodecError>) { unimplemented!() }

pub struct G { pub pending: Snap, pub state: Opaque, pub n: u64 }

impl G {
    #[verifier::external_body]
    fn insert_past(&mut self) -> (r: Result<(), MlsError>)
        ensures r.is_err() ==> *final(self) == *old(self),
                final(self).pending == old(self).pending, final(self).state == old(self).state
    { unimplemented!() }

    // (a) ? with From, (b) let-else, match
    fn apply(&mut self, s: Snap) -> (r: Result<u32, MlsError>)
        ensures r.is_err() ==> *final(self) == *old(self)
    {
        let pending = match s {
            Snap::Pending(bytes) => decode(&bytes)?,
            _ => return Err(MlsError::A),
        };
        self.insert_past()?;
        self.state = pending;
        Ok(1)
    }

    fn letelse(&self) -> Result<u32, MlsError> {
        let Snap::Pending(b) = &self.pending else { return Err(MlsError::A); };
        Ok(b.len() as u32)
    }

    fn take_bad(&mut self) -> (r: Result<u32, MlsError>)
        ensures r.is_err() ==> final(self).pending == old(self).pending
    {
        let p = core::mem::take(&mut self.pending);
        self.insert_past()?;
        Ok(1)
    }
}

fn wl(v: &mut Vec<u32>) -> u32 {
    let mut s = 0u32;
    while let Some(x) = v.pop() decreases v.len() { if s < 100 { s = s + (x % 2); } }
    s
}

fn optmap(o: Option<u32>) -> Option<bool> { o.map(|x| x > 3) }

fn iters(v: &Vec<u32>) -> u32 {
    let mut c = 0u32;
    for x in v.iter() { if c < 10 { c += 1; } }
    c
}

fn m(o: &Snap) -> bool { matches!(o, Snap::None) }

}
fn main() {}
