#![feature(allocator_api)]
use vstd::prelude::*;
use std::collections::HashMap;
use vstd::std_specs::hash::*;
verus! {

pub enum MlsError { KeyMissing(u32), InvalidFutureGeneration(u32), Crypto }
pub struct MessageKeyData { pub generation: u32 }

pub trait Provider { fn kdf(&self, s: &Vec<u8>, g: u32) -> Result<Vec<u8>, MlsError>; }

pub struct SecretKeyRatchet { pub secret: Vec<u8>, pub generation: u32, pub history: HashMap<u32, MessageKeyData> }

pub const MAX_RATCHET_BACK_HISTORY: u32 = 1024;

pub assume_specification<K: core::cmp::Eq + core::hash::Hash + core::borrow::Borrow<Q>, V, S: core::hash::BuildHasher, A: core::alloc::Allocator, Q: core::hash::Hash + core::cmp::Eq + ?Sized>
    [HashMap::<K, V, S, A>::remove_entry::<Q>] (m: &mut HashMap<K, V, S, A>, k: &Q) -> (r: Option<(K, V)>)
    ensures
        obeys_key_model::<K>() && builds_valid_hashers::<S>() ==> {
            &&& (contains_borrowed_key(old(m)@, k) ==> (r matches Some(p) && maps_borrowed_key_to_value(old(m)@, k, p.1) && old(m)@.contains_key(p.0) && old(m)@[p.0] == p.1 && final(m)@ == old(m)@.remove(p.0)) && borrowed_key_removed(old(m)@, final(m)@, k))
            &&& (!contains_borrowed_key(old(m)@, k) ==> r.is_none() && final(m)@ == old(m)@)
        };

impl SecretKeyRatchet {
    pub open spec fn wf(&self) -> bool {
        &&& forall|h: u32| self.history@.contains_key(h) ==> h < self.generation
        &&& forall|h: u32| self.history@.contains_key(h) ==> self.history@[h].generation == h
    }
    pub open spec fn available(&self, g: u32) -> bool {
        g >= self.generation || self.history@.contains_key(g)
    }

    fn get_message_key<P: Provider>(
        &mut self,
        cipher_suite_provider: &P,
        generation: u32,
    ) -> (r: Result<MessageKeyData, MlsError>)
        requires old(self).wf(), old(self).generation < 0xffff_0000u32,
        ensures
            final(self).wf(),
            r matches Ok(k) ==> k.generation == generation && old(self).available(generation)
                && !final(self).available(generation)
                && generation <= old(self).generation + 1024
                && (forall|g: u32| g != generation ==> (final(self).available(g) == old(self).available(g))),
            r matches Err(MlsError::KeyMissing(_)) ==> !old(self).available(generation)
                && final(self).generation == old(self).generation && final(self).history@ == old(self).history@,
            r matches Err(MlsError::InvalidFutureGeneration(_)) ==> generation > old(self).generation + 1024
                && final(self).generation == old(self).generation && final(self).history@ == old(self).history@,
            (r matches Err(MlsError::Crypto)) ==> (forall|g: u32| final(self).available(g) == old(self).available(g)),
    {
        broadcast use vstd::std_specs::hash::group_hash_axioms;
        if generation < self.generation {
            return self
                .history
                .remove_entry(&generation)
                .map(|p: (u32, MessageKeyData)| -> (o: MessageKeyData) ensures o == p.1 { p.1 })
                .ok_or(MlsError::KeyMissing(generation));
        }

        let max_generation_allowed = self.generation + MAX_RATCHET_BACK_HISTORY;

        if generation > max_generation_allowed {
            return Err(MlsError::InvalidFutureGeneration(generation));
        }

        while self.generation < generation
            invariant
                self.wf(), self.generation <= generation, generation <= old(self).generation + 1024,
                old(self).generation <= self.generation, old(self).generation < 0xffff_0000u32,
                forall|g: u32| (self.available(g) == old(self).available(g)),
            decreases generation - self.generation
        {
            let key_data = self.next_message_key(cipher_suite_provider)?;
            self.history.insert(key_data.generation, key_data);
        }

        self.next_message_key(cipher_suite_provider)
    }

    fn next_message_key<P: Provider>(&mut self, cipher_suite_provider: &P) -> (r: Result<MessageKeyData, MlsError>)
        requires old(self).generation < u32::MAX
        ensures
            r matches Ok(k) ==> k.generation == old(self).generation && final(self).generation == old(self).generation + 1
                && final(self).history@ == old(self).history@,
            r matches Err(e) ==> e matches MlsError::Crypto && final(self).generation == old(self).generation && final(self).history@ == old(self).history@,
    {
        let generation = self.generation;
        let key = MessageKeyData { generation };
        let s = match cipher_suite_provider.kdf(&self.secret, generation) { Ok(s) => s, Err(_) => return Err(MlsError::Crypto) };
        self.secret = s;
        self.generation = generation + 1;
        Ok(key)
    }
}

}
fn main() {}
