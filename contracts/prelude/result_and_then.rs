// ASSUMED std spec: Result::and_then applies the closure to the Ok value and passes an Err through
pub assume_specification<T, E, U, F: FnOnce(T) -> Result<U, E>> [Result::<T, E>::and_then] (r: Result<T, E>, f: F) -> (o: Result<U, E>)
    ensures
        r matches Ok(t) ==> f.requires((t,)) ==> f.ensures((t,), o),
        r matches Err(e) ==> o == Err::<U, E>(e);
