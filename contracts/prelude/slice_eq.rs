// ASSUMED std spec: `&[u8] != Vec<u8>` (impl PartialEq<Vec<U>> for &[T]) compares contents.
pub uninterp spec fn slice_vec_ne<T, U>(a: Seq<T>, b: Seq<U>) -> bool;
pub assume_specification<'a, T: core::cmp::PartialEq<U>, U, A: core::alloc::Allocator> [<&'a [T] as core::cmp::PartialEq<Vec<U, A>>>::ne] (a: &&'a [T], b: &Vec<U, A>) -> (r: bool)
    ensures r == slice_vec_ne::<T, U>(a@, b@);
#[verifier::external_body]
pub broadcast proof fn axiom_slice_vec_ne_u8(a: Seq<u8>, b: Seq<u8>)
    ensures #[trigger] slice_vec_ne::<u8, u8>(a, b) == !(a =~= b)
{}
