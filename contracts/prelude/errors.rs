// Opaque payload types carried by MlsError variants (only moved / compared).
#[verifier::external_body] pub struct AnyError { _p: u8 }
#[verifier::external_body] pub struct ProtocolVersion { _p: u8 }
#[verifier::external_body] pub struct CipherSuite { _p: u8 }
#[verifier::external_body] pub struct ExtensionType { _p: u8 }
#[verifier::external_body] pub struct ProposalType { _p: u8 }
#[verifier::external_body] pub struct CredentialType { _p: u8 }
#[verifier::external_body] pub struct MlsTime { _p: u8 }
pub type NodeIndex = u32;
