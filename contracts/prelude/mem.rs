// ASSUMED std specs: mem::take returns the old value and leaves Default::default() behind; mem::replace stores the
// new value and returns the old one
pub assume_specification<T: core::default::Default> [core::mem::take::<T>] (d: &mut T) -> (r: T)
    ensures r == *old(d), call_ensures(T::default, (), *final(d));
pub assume_specification<T> [core::mem::replace::<T>] (dest: &mut T, src: T) -> (r: T)
    ensures r == *old(dest), *final(dest) == src;
