// ASSUMED std specs: mem::take returns the old value and leaves Default::default() behind; mem::replace stores the
// new value and returns the old one
pub assume_specification<T: core::default::Default> [core::mem::take::<T>] (d: &mut T) -> (r: T)
    ensures r == *old(d), call_ensures(T::default, (), *final(d));
pub assume_specification<T> [core::mem::replace::<T>] (dest: &mut T, src: T) -> (r: T)
    ensures r == *old(dest), *final(dest) == src;
// ASSUMED std specs for Option / Result combinators vstd does not cover (so that a change that starts using one of them
// can still be decided instead of leaving the unit undecided)
pub assume_specification<T> [Option::<T>::replace] (o: &mut Option<T>, v: T) -> (r: Option<T>)
    ensures r == *old(o), *final(o) == Some(v);
pub assume_specification<T> [Option::<T>::or] (o: Option<T>, b: Option<T>) -> (r: Option<T>)
    ensures r == (if o is Some { o } else { b });
pub assume_specification<T, E> [Result::<T, E>::unwrap_or] (x: Result<T, E>, d: T) -> (r: T)
    ensures r == (match x { Ok(t) => t, Err(_) => d });
pub assume_specification<T, F: FnOnce(T) -> bool> [Option::<T>::is_some_and] (o: Option<T>, f: F) -> (r: bool)
    requires o matches Some(t) ==> f.requires((t,))
    ensures o is None ==> !r, o matches Some(t) ==> f.ensures((t,), r);
pub assume_specification<T, U, F: FnOnce(T) -> U> [Option::<T>::map_or] (o: Option<T>, default: U, f: F) -> (r: U)
    requires o matches Some(t) ==> f.requires((t,))
    ensures o is None ==> r == default, o matches Some(t) ==> f.ensures((t,), r);
pub assume_specification<'a, T: Clone> [Option::<&'a mut T>::cloned] (o: Option<&'a mut T>) -> (r: Option<T>)
    ensures o is None ==> r is None,
            o matches Some(x) ==> r is Some && cloned::<T>(*x, r->Some_0) && *final(x) == *x;
