// ASSUMED std specs for VecDeque methods vstd does not cover (needs #![feature(allocator_api)]).
pub assume_specification<T, A: core::alloc::Allocator> [std::collections::VecDeque::<T, A>::front] (v: &std::collections::VecDeque<T, A>) -> (r: Option<&T>)
    ensures r == (if v@.len() > 0 { Some(&v@[0]) } else { None::<&T> });
pub assume_specification<T, A: core::alloc::Allocator> [std::collections::VecDeque::<T, A>::back] (v: &std::collections::VecDeque<T, A>) -> (r: Option<&T>)
    ensures r == (if v@.len() > 0 { Some(&v@[v@.len() - 1]) } else { None::<&T> });
pub assume_specification<T, A: core::alloc::Allocator> [std::collections::VecDeque::<T, A>::get] (v: &std::collections::VecDeque<T, A>, i: usize) -> (r: Option<&T>)
    ensures r == (if i < v@.len() { Some(&v@[i as int]) } else { None::<&T> });
