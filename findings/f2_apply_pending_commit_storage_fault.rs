// Witness for finding F2 (C15/C11/C04): apply_pending_commit loses the pending commit when
// the storage call inside insert_past_epoch fails.  Drop this file into mls-rs/tests/ and run
//   cargo test -p mls-rs --test f2_apply_pending_commit_storage_fault --offline
// Fails on the tree before the "fix:" commit, passes after it.
use std::sync::{atomic::{AtomicBool, Ordering}, Arc};

use mls_rs::{
    client_builder::MlsConfig,
    identity::{basic::{BasicCredential, BasicIdentityProvider}, SigningIdentity},
    storage_provider::in_memory::InMemoryGroupStateStorage,
    CipherSuite, CipherSuiteProvider, Client, CryptoProvider, GroupStateStorage,
};
use mls_rs_core::group::{EpochRecord, GroupState};

const CS: CipherSuite = CipherSuite::CURVE25519_AES128;

#[derive(Clone)]
struct Flaky { inner: InMemoryGroupStateStorage, fail: Arc<AtomicBool> }

#[derive(Debug)]
struct Boom;
impl std::fmt::Display for Boom { fn fmt(&self, f: &mut std::fmt::Formatter<'_>) -> std::fmt::Result { write!(f, "boom") } }
impl std::error::Error for Boom {}
impl mls_rs_core::error::IntoAnyError for Boom {
    fn into_dyn_error(self) -> Result<Box<dyn std::error::Error + Send + Sync>, Self> { Ok(Box::new(self)) }
}

impl GroupStateStorage for Flaky {
    type Error = Boom;
    fn state(&self, id: &[u8]) -> Result<Option<zeroize::Zeroizing<Vec<u8>>>, Boom> {
        self.inner.state(id).map_err(|_| Boom)
    }
    fn epoch(&self, id: &[u8], e: u64) -> Result<Option<zeroize::Zeroizing<Vec<u8>>>, Boom> {
        self.inner.epoch(id, e).map_err(|_| Boom)
    }
    fn write(&mut self, s: GroupState, i: Vec<EpochRecord>, u: Vec<EpochRecord>) -> Result<(), Boom> {
        self.inner.write(s, i, u).map_err(|_| Boom)
    }
    fn max_epoch_id(&self, id: &[u8]) -> Result<Option<u64>, Boom> {
        if self.fail.load(Ordering::SeqCst) { return Err(Boom); }
        self.inner.max_epoch_id(id).map_err(|_| Boom)
    }
}

fn client(fail: Arc<AtomicBool>) -> Client<impl MlsConfig> {
    let cp = mls_rs_crypto_openssl::OpensslCryptoProvider::default();
    let cs = cp.cipher_suite_provider(CS).unwrap();
    let (sk, pk) = cs.signature_key_generate().unwrap();
    let id = SigningIdentity::new(BasicCredential::new(b"alice".to_vec()).into_credential(), pk);
    Client::builder()
        .identity_provider(BasicIdentityProvider)
        .crypto_provider(cp)
        .group_state_storage(Flaky { inner: InMemoryGroupStateStorage::new(), fail })
        .signing_identity(id, sk, CS)
        .build()
}

#[test]
fn failed_apply_pending_commit_keeps_the_pending_commit() {
    let fail = Arc::new(AtomicBool::new(false));
    let alice = client(fail.clone());
    let mut group = alice.group_builder().unwrap().build().unwrap();
    group.commit(vec![]).unwrap();
    assert!(group.has_pending_commit());

    fail.store(true, Ordering::SeqCst);               // transient storage fault
    assert!(group.apply_pending_commit().is_err());
    assert!(group.has_pending_commit(), "pending commit lost by a failed apply_pending_commit");

    fail.store(false, Ordering::SeqCst);              // storage works again: retry succeeds
    group.apply_pending_commit().unwrap();
    assert_eq!(group.current_epoch(), 1);
}
