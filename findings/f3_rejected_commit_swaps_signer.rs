// Witness for finding F3 (C04): Group::apply_update_path swaps in the new signature key of the
// member's own pending update BEFORE the commit is accepted; if the commit is then rejected the
// member signs with a key that is not in the tree and its messages are refused by its peers.
// (harness shared with F5:) update_key_schedule installs the private tree obtained
// from the received commit BEFORE the last fallible steps (PSK lookup, key schedule, confirmation
// tag comparison, prior-epoch insert).  A commit that is then rejected leaves the member with
// private keys of a tree it never adopted; the next genuine commit encrypted to the old keys can
// no longer be decrypted.  Drop into mls-rs/tests/ and run
//   cargo test -p mls-rs --test f3_rejected_commit_swaps_signer --offline
use std::sync::{atomic::{AtomicBool, Ordering}, Arc};

use mls_rs::{
    client_builder::MlsConfig,
    identity::{basic::{BasicCredential, BasicIdentityProvider}, SigningIdentity},
    storage_provider::in_memory::InMemoryGroupStateStorage,
    CipherSuite, CipherSuiteProvider, Client, CryptoProvider, GroupStateStorage,
};
use mls_rs_core::group::{EpochRecord, GroupState};

const CS: CipherSuite = CipherSuite::CURVE25519_AES128;

#[derive(Clone)]
struct Flaky { inner: InMemoryGroupStateStorage, fail: Arc<AtomicBool> }
#[derive(Debug)]
struct Boom;
impl std::fmt::Display for Boom { fn fmt(&self, f: &mut std::fmt::Formatter<'_>) -> std::fmt::Result { write!(f, "boom") } }
impl std::error::Error for Boom {}
impl mls_rs_core::error::IntoAnyError for Boom {
    fn into_dyn_error(self) -> Result<Box<dyn std::error::Error + Send + Sync>, Self> { Ok(Box::new(self)) }
}
impl GroupStateStorage for Flaky {
    type Error = Boom;
    fn state(&self, id: &[u8]) -> Result<Option<zeroize::Zeroizing<Vec<u8>>>, Boom> { self.inner.state(id).map_err(|_| Boom) }
    fn epoch(&self, id: &[u8], e: u64) -> Result<Option<zeroize::Zeroizing<Vec<u8>>>, Boom> { self.inner.epoch(id, e).map_err(|_| Boom) }
    fn write(&mut self, s: GroupState, i: Vec<EpochRecord>, u: Vec<EpochRecord>) -> Result<(), Boom> { self.inner.write(s, i, u).map_err(|_| Boom) }
    fn max_epoch_id(&self, id: &[u8]) -> Result<Option<u64>, Boom> {
        if self.fail.load(Ordering::SeqCst) { return Err(Boom); }
        self.inner.max_epoch_id(id).map_err(|_| Boom)
    }
}

fn client(name: &str, fail: Arc<AtomicBool>) -> Client<impl MlsConfig> {
    let cp = mls_rs_crypto_openssl::OpensslCryptoProvider::default();
    let cs = cp.cipher_suite_provider(CS).unwrap();
    let (sk, pk) = cs.signature_key_generate().unwrap();
    let id = SigningIdentity::new(BasicCredential::new(name.as_bytes().to_vec()).into_credential(), pk);
    Client::builder()
        .identity_provider(BasicIdentityProvider)
        .crypto_provider(cp)
        .group_state_storage(Flaky { inner: InMemoryGroupStateStorage::new(), fail })
        .signing_identity(id, sk, CS)
        .build()
}

#[test]
fn rejected_commit_does_not_swap_the_signing_key() {
    let bob_fail = Arc::new(AtomicBool::new(false));
    let never = Arc::new(AtomicBool::new(false));
    let alice = client("alice", never.clone());
    let bob = client("bob", bob_fail.clone());
    let carol = client("carol", never.clone());

    let mut ga = alice.group_builder().unwrap().build().unwrap();
    let kps: Vec<_> = [&bob, &carol].iter()
        .map(|c| c.generate_key_package_message(Default::default(), Default::default(), None).unwrap()).collect();
    let mut b = ga.commit_builder();
    for kp in kps { b = b.add_member(kp).unwrap(); }
    let c = b.build().unwrap();
    ga.apply_pending_commit().unwrap();
    let w = &c.welcome_messages[0];
    let (mut gb, _) = bob.join_group(None, w, None).unwrap();
    let (mut gc, _) = carol.join_group(None, w, None).unwrap();
    gb.write_to_storage().unwrap();

    // bob proposes an update that also rotates his signature key (same identity "bob")
    let cp = mls_rs_crypto_openssl::OpensslCryptoProvider::default();
    let cs = cp.cipher_suite_provider(CS).unwrap();
    let (new_sk, new_pk) = cs.signature_key_generate().unwrap();
    let new_id = SigningIdentity::new(BasicCredential::new(b"bob".to_vec()).into_credential(), new_pk);
    let bob_update = gb.propose_update_with_identity(new_sk, new_id, vec![]).unwrap();

    // alice has seen the proposal and commits it; carol has not and commits without it (race)
    ga.process_incoming_message(bob_update).unwrap();
    let alice_commit = ga.commit(vec![]).unwrap();
    let carol_commit = gc.commit(vec![]).unwrap();

    // bob sees alice's commit first while his storage is briefly unavailable: rejected
    bob_fail.store(true, Ordering::SeqCst);
    assert!(gb.process_incoming_message(alice_commit.commit_message).is_err());
    bob_fail.store(false, Ordering::SeqCst);

    // the delivery service picked carol's commit; everybody follows it
    ga.clear_pending_commit();
    ga.process_incoming_message(carol_commit.commit_message.clone()).unwrap();
    gc.apply_pending_commit().unwrap();
    gb.process_incoming_message(carol_commit.commit_message).unwrap();

    // bob's leaf still carries his OLD key, so what he sends must verify under it
    let msg = gb.encrypt_application_message(b"hello", vec![]).unwrap();
    let res = ga.process_incoming_message(msg);
    assert!(res.is_ok(), "bob's message is refused by his peers after a rejected commit: {:?}", res.err());
}
