// Witness for finding F30 (C04): ProposalCache::insert_own put the member's own proposal into the proposal
// cache BEFORE computing the message hash it is filed under; when that (fallible, provider-backed) hash
// failed, Group::proposal_message returned Err - the caller never got a message to send - but the
// proposal stayed in the cache, and the member's next commit silently carried it out.
// Drop into mls-rs/tests/ and run
//   cargo test -p mls-rs --test f30_failed_proposal_stays_cached --offline
use std::sync::{atomic::{AtomicI64, Ordering}, Arc};

use mls_rs::{
    client_builder::MlsConfig,
    crypto::{HpkeCiphertext, HpkePublicKey, HpkeSecretKey, SignaturePublicKey, SignatureSecretKey},
    identity::{basic::{BasicCredential, BasicIdentityProvider}, SigningIdentity},
    CipherSuite, CipherSuiteProvider, Client, CryptoProvider,
};
use mls_rs_core::crypto::HpkePsk;
use mls_rs_crypto_openssl::OpensslCryptoProvider;
use zeroize::Zeroizing;

const CS: CipherSuite = CipherSuite::CURVE25519_AES128;

type Inner = <OpensslCryptoProvider as CryptoProvider>::CipherSuiteProvider;

#[derive(Clone)]
struct FlakyCrypto { inner: OpensslCryptoProvider, fail_hash: Arc<AtomicI64> }
#[derive(Clone)]
struct FlakySuite { inner: Inner, fail_hash: Arc<AtomicI64> }

#[derive(Debug)]
struct Boom(String);
impl std::fmt::Display for Boom { fn fmt(&self, f: &mut std::fmt::Formatter<'_>) -> std::fmt::Result { write!(f, "{}", self.0) } }
impl std::error::Error for Boom {}
impl mls_rs_core::error::IntoAnyError for Boom {
    fn into_dyn_error(self) -> Result<Box<dyn std::error::Error + Send + Sync>, Self> { Ok(Box::new(self)) }
}
fn b<E: std::fmt::Debug>(e: E) -> Boom { Boom(format!("{e:?}")) }

impl CryptoProvider for FlakyCrypto {
    type CipherSuiteProvider = FlakySuite;
    fn supported_cipher_suites(&self) -> Vec<CipherSuite> { self.inner.supported_cipher_suites() }
    fn cipher_suite_provider(&self, cs: CipherSuite) -> Option<FlakySuite> {
        self.inner.cipher_suite_provider(cs).map(|inner| FlakySuite { inner, fail_hash: self.fail_hash.clone() })
    }
}

impl CipherSuiteProvider for FlakySuite {
    type Error = Boom;
    type HpkeContextS = <Inner as CipherSuiteProvider>::HpkeContextS;
    type HpkeContextR = <Inner as CipherSuiteProvider>::HpkeContextR;
    fn cipher_suite(&self) -> CipherSuite { self.inner.cipher_suite() }
    fn hash(&self, d: &[u8]) -> Result<Vec<u8>, Boom> {
        if self.fail_hash.fetch_sub(1, Ordering::SeqCst) == 1 { return Err(Boom("transient hash failure".into())); }
        self.inner.hash(d).map_err(b)
    }
    fn mac(&self, k: &[u8], d: &[u8]) -> Result<Vec<u8>, Boom> { self.inner.mac(k, d).map_err(b) }
    fn aead_seal(&self, k: &[u8], d: &[u8], a: Option<&[u8]>, n: &[u8]) -> Result<Vec<u8>, Boom> { self.inner.aead_seal(k, d, a, n).map_err(b) }
    fn aead_open(&self, k: &[u8], c: &[u8], a: Option<&[u8]>, n: &[u8]) -> Result<Zeroizing<Vec<u8>>, Boom> { self.inner.aead_open(k, c, a, n).map_err(b) }
    fn aead_key_size(&self) -> usize { self.inner.aead_key_size() }
    fn aead_nonce_size(&self) -> usize { self.inner.aead_nonce_size() }
    fn kdf_extract(&self, s: &[u8], i: &[u8]) -> Result<Zeroizing<Vec<u8>>, Boom> { self.inner.kdf_extract(s, i).map_err(b) }
    fn kdf_expand(&self, p: &[u8], i: &[u8], l: usize) -> Result<Zeroizing<Vec<u8>>, Boom> {
        self.inner.kdf_expand(p, i, l).map_err(b)
    }
    fn kdf_extract_size(&self) -> usize { self.inner.kdf_extract_size() }
    fn hpke_seal(&self, r: &HpkePublicKey, i: &[u8], a: Option<&[u8]>, p: &[u8]) -> Result<HpkeCiphertext, Boom> { self.inner.hpke_seal(r, i, a, p).map_err(b) }
    fn hpke_seal_psk(&self, r: &HpkePublicKey, i: &[u8], a: Option<&[u8]>, p: &[u8], psk: HpkePsk<'_>) -> Result<HpkeCiphertext, Boom> { self.inner.hpke_seal_psk(r, i, a, p, psk).map_err(b) }
    fn hpke_open(&self, c: &HpkeCiphertext, s: &HpkeSecretKey, p: &HpkePublicKey, i: &[u8], a: Option<&[u8]>) -> Result<Zeroizing<Vec<u8>>, Boom> { self.inner.hpke_open(c, s, p, i, a).map_err(b) }
    fn hpke_open_psk(&self, c: &HpkeCiphertext, s: &HpkeSecretKey, p: &HpkePublicKey, i: &[u8], a: Option<&[u8]>, psk: HpkePsk<'_>) -> Result<Zeroizing<Vec<u8>>, Boom> { self.inner.hpke_open_psk(c, s, p, i, a, psk).map_err(b) }
    fn hpke_setup_s(&self, r: &HpkePublicKey, i: &[u8]) -> Result<(Vec<u8>, Self::HpkeContextS), Boom> { self.inner.hpke_setup_s(r, i).map_err(b) }
    fn hpke_setup_r(&self, k: &[u8], s: &HpkeSecretKey, p: &HpkePublicKey, i: &[u8]) -> Result<Self::HpkeContextR, Boom> { self.inner.hpke_setup_r(k, s, p, i).map_err(b) }
    fn kem_derive(&self, ikm: &[u8]) -> Result<(HpkeSecretKey, HpkePublicKey), Boom> { self.inner.kem_derive(ikm).map_err(b) }
    fn kem_generate(&self) -> Result<(HpkeSecretKey, HpkePublicKey), Boom> { self.inner.kem_generate().map_err(b) }
    fn kem_public_key_validate(&self, k: &HpkePublicKey) -> Result<(), Boom> { self.inner.kem_public_key_validate(k).map_err(b) }
    fn random_bytes(&self, o: &mut [u8]) -> Result<(), Boom> { self.inner.random_bytes(o).map_err(b) }
    fn signature_key_generate(&self) -> Result<(SignatureSecretKey, SignaturePublicKey), Boom> { self.inner.signature_key_generate().map_err(b) }
    fn signature_key_derive_public(&self, s: &SignatureSecretKey) -> Result<SignaturePublicKey, Boom> { self.inner.signature_key_derive_public(s).map_err(b) }
    fn sign(&self, s: &SignatureSecretKey, d: &[u8]) -> Result<Vec<u8>, Boom> { self.inner.sign(s, d).map_err(b) }
    fn verify(&self, p: &SignaturePublicKey, s: &[u8], d: &[u8]) -> Result<(), Boom> { self.inner.verify(p, s, d).map_err(b) }
}

fn client(name: &str, fail: Arc<AtomicI64>) -> Client<impl MlsConfig> {
    let cp = FlakyCrypto { inner: OpensslCryptoProvider::default(), fail_hash: fail };
    let cs = cp.cipher_suite_provider(CS).unwrap();
    let (sk, pk) = cs.signature_key_generate().unwrap();
    let id = SigningIdentity::new(BasicCredential::new(name.as_bytes().to_vec()).into_credential(), pk);
    Client::builder().identity_provider(BasicIdentityProvider).crypto_provider(cp).signing_identity(id, sk, CS).build()
}

#[test]
fn proposal_that_failed_to_build_is_not_committed_later() {
    // the k-th hash call of one propose_remove fails once; whatever k is, a proposal the caller was
    // told had failed must not be part of the member's next commit
    for k in 1..20i64 {
        let fail = Arc::new(AtomicI64::new(i64::MIN / 2));
        let alice = client("alice", fail.clone());
        let mut ga = alice.group_builder().unwrap().build().unwrap();
        let bob = client("bob", Arc::new(AtomicI64::new(i64::MIN / 2)));
        let kp = bob.generate_key_package_message(Default::default(), Default::default(), None).unwrap();
        ga.commit_builder().add_member(kp).unwrap().build().unwrap();
        ga.apply_pending_commit().unwrap();
        assert_eq!(ga.roster().members().len(), 2);

        fail.store(k, Ordering::SeqCst);
        let res = ga.propose_remove(1, vec![]);
        fail.store(i64::MIN / 2, Ordering::SeqCst);
        if res.is_ok() {
            // fewer than k hash calls in one proposal: nothing left to probe
            assert!(k > 1, "the probe never fired");
            break;
        }

        ga.commit(vec![]).unwrap();
        ga.apply_pending_commit().unwrap();
        assert_eq!(ga.roster().members().len(), 2,
            "hash call #{k} failed, propose_remove returned Err, and the next commit removed bob anyway");
    }
}
