// OBSERVATION (not decided by any obligation): a member that was removed and is re-added later,
// using the same group-state storage, cannot process the next commit.
use mls_rs::{
    client_builder::MlsConfig,
    identity::{basic::{BasicCredential, BasicIdentityProvider}, SigningIdentity},
    CipherSuite, CipherSuiteProvider, Client, CryptoProvider,
};
use mls_rs_crypto_openssl::OpensslCryptoProvider;

const CIPHERSUITE: CipherSuite = CipherSuite::CURVE25519_AES128;

fn make_client(name: &str) -> Client<impl MlsConfig> {
    let crypto_provider = OpensslCryptoProvider::default();
    let cs = crypto_provider.cipher_suite_provider(CIPHERSUITE).unwrap();
    let (secret, public) = cs.signature_key_generate().unwrap();
    let credential = BasicCredential::new(name.as_bytes().to_vec()).into_credential();
    Client::builder()
        .identity_provider(BasicIdentityProvider)
        .crypto_provider(crypto_provider)
        .signing_identity(SigningIdentity::new(credential, public), secret, CIPHERSUITE)
        .build()
}

#[test]
fn removed_member_comes_back_with_the_same_storage() {
    let alice = make_client("alice");
    let bob = make_client("bob");
    let mut a = alice.group_builder().unwrap().build().unwrap();

    let kp = bob.generate_key_package_message(Default::default(), Default::default(), None).unwrap();
    let c = a.commit_builder().add_member(kp).unwrap().build().unwrap();
    a.apply_pending_commit().unwrap();
    let (mut b, _) = bob.join_group(None, &c.welcome_messages[0], None).unwrap();
    b.write_to_storage().unwrap();

    // one more epoch so that bob stores a prior-epoch record
    let c = a.commit(vec![]).unwrap();
    a.apply_pending_commit().unwrap();
    b.process_incoming_message(c.commit_message).unwrap();
    b.write_to_storage().unwrap();

    // alice removes bob, then moves on a few epochs
    let c = a.commit_builder().remove_member(1).unwrap().build().unwrap();
    a.apply_pending_commit().unwrap();
    b.process_incoming_message(c.commit_message).unwrap();
    b.write_to_storage().unwrap();
    for _ in 0..3 {
        a.commit(vec![]).unwrap();
        a.apply_pending_commit().unwrap();
    }

    // bob is added again and joins with the SAME client (same storage)
    let kp = bob.generate_key_package_message(Default::default(), Default::default(), None).unwrap();
    let c = a.commit_builder().add_member(kp).unwrap().build().unwrap();
    a.apply_pending_commit().unwrap();
    let (mut b, _) = bob.join_group(None, &c.welcome_messages[0], None).unwrap();
    b.write_to_storage().unwrap();

    // the joiner "can immediately exchange messages and commit"
    let c = a.commit(vec![]).unwrap();
    a.apply_pending_commit().unwrap();
    b.process_incoming_message(c.commit_message).expect("the re-added member must be able to follow the group");
}
