// Witness for finding F22 (C15): a failing call into the application's PSK store while a commit is built was treated
// like an invalid proposal: filter_out_invalid_psks fed Err(PskStoreError) into apply_strategy, which DROPS a
// by-reference proposal on any error when sending.  commit() returned Ok and the epoch was created without the PSK;
// the cached proposal was lost.  C15: "the operation returns an error and the member is unchanged ... once the storage
// works again, repeating the operation succeeds".  Drop this file into mls-rs/tests/ and run
//   cargo test -p mls-rs --test f22_psk_store_fault_drops_proposal --offline
// Fails on the tree before the "fix: a failing PSK store ..." commit, passes after it.
use std::sync::{atomic::{AtomicBool, Ordering}, Arc};

use mls_rs::{
    client_builder::MlsConfig,
    identity::{basic::{BasicCredential, BasicIdentityProvider}, SigningIdentity},
    psk::{ExternalPskId, PreSharedKey},
    storage_provider::in_memory::InMemoryPreSharedKeyStorage,
    CipherSuite, CipherSuiteProvider, Client, CryptoProvider,
};
use mls_rs_core::psk::PreSharedKeyStorage;

const CS: CipherSuite = CipherSuite::CURVE25519_AES128;

#[derive(Clone)]
struct FlakyPsk { inner: InMemoryPreSharedKeyStorage, fail: Arc<AtomicBool> }

#[derive(Debug)]
struct Boom;
impl std::fmt::Display for Boom { fn fmt(&self, f: &mut std::fmt::Formatter<'_>) -> std::fmt::Result { write!(f, "boom") } }
impl std::error::Error for Boom {}
impl mls_rs_core::error::IntoAnyError for Boom {
    fn into_dyn_error(self) -> Result<Box<dyn std::error::Error + Send + Sync>, Self> { Ok(Box::new(self)) }
}

impl PreSharedKeyStorage for FlakyPsk {
    type Error = Boom;
    fn get(&self, id: &ExternalPskId) -> Result<Option<PreSharedKey>, Boom> {
        if self.fail.load(Ordering::SeqCst) { return Err(Boom); }
        PreSharedKeyStorage::get(&self.inner, id).map_err(|_| Boom)
    }
}

fn client(store: FlakyPsk) -> Client<impl MlsConfig> {
    let cp = mls_rs_crypto_openssl::OpensslCryptoProvider::default();
    let cs = cp.cipher_suite_provider(CS).unwrap();
    let (sk, pk) = cs.signature_key_generate().unwrap();
    let id = SigningIdentity::new(BasicCredential::new(b"alice".to_vec()).into_credential(), pk);
    Client::builder()
        .identity_provider(BasicIdentityProvider)
        .crypto_provider(cp)
        .psk_store(store)
        .signing_identity(id, sk, CS)
        .build()
}

#[test]
fn psk_store_fault_while_committing_is_an_error_and_the_retry_carries_the_psk() {
    let fail = Arc::new(AtomicBool::new(false));
    let mut inner = InMemoryPreSharedKeyStorage::default();
    let psk_id = ExternalPskId::new(b"psk".to_vec());
    inner.insert(psk_id.clone(), PreSharedKey::new(vec![7u8; 32]));
    let alice = client(FlakyPsk { inner, fail: fail.clone() });
    let mut g = alice.group_builder().unwrap().build().unwrap();

    // the member's own by-reference PSK proposal is cached
    g.propose_external_psk(psk_id, vec![]).unwrap();

    // the store goes down while the commit is built
    fail.store(true, Ordering::SeqCst);
    let res = g.commit(vec![]);
    assert!(res.is_err(), "a failing PSK store was swallowed: commit() returned Ok and left the PSK proposal out");
    assert!(!g.has_pending_commit());

    // the store is back: the same operation succeeds and the commit carries the PSK
    fail.store(false, Ordering::SeqCst);
    let out = g.commit(vec![]).unwrap();
    assert_eq!(out.unused_proposals.len(), 0);
    let effect = g.apply_pending_commit().unwrap();
    match effect.effect {
        mls_rs::group::CommitEffect::NewEpoch(e) => assert_eq!(e.applied_proposals.len(), 1),
        _ => panic!("unexpected effect"),
    }
}
