// Witness for known finding K3 (C19): a late application message of a RETAINED epoch is refused when its sender has rotated its
// signature key since (same member, same leaf - neither vacated nor reused): validate_sender_signature_key_from_prior_epoch compares
// the signature key recorded for that leaf in the prior epoch with the key that sits there now.  C19: "A member decrypts an
// application message of a past epoch exactly when that epoch is still retained ... if the sender's leaf has since been vacated or
// reused it is rejected" (quantifier: histories in which the leaf is "re-keyed between sending and delivery").
// Fails on the real code (Err(MemberNotFound)).  Copy to mls-rs/tests/ and run
//   cargo test -p mls-rs --offline --test k3_late_message_after_signature_key_rotation
use mls_rs::{
    client_builder::MlsConfig,
    group::ReceivedMessage,
    identity::{basic::{BasicCredential, BasicIdentityProvider}, SigningIdentity},
    CipherSuite, CipherSuiteProvider, Client, CryptoProvider,
};
use mls_rs_crypto_openssl::OpensslCryptoProvider;

const CS: CipherSuite = CipherSuite::CURVE25519_AES128;

fn client(name: &str) -> Client<impl MlsConfig> {
    let cp = OpensslCryptoProvider::default();
    let cs = cp.cipher_suite_provider(CS).unwrap();
    let (sk, pk) = cs.signature_key_generate().unwrap();
    let id = SigningIdentity::new(BasicCredential::new(name.as_bytes().to_vec()).into_credential(), pk);
    Client::builder().identity_provider(BasicIdentityProvider).crypto_provider(cp).signing_identity(id, sk, CS).build()
}

#[test]
fn late_message_from_a_member_that_rotated_its_signature_key_is_decrypted() {
    let alice = client("alice");
    let bob = client("bob");
    let mut a = alice.group_builder().unwrap().build().unwrap();
    let kp = bob.generate_key_package_message(Default::default(), Default::default(), None).unwrap();
    let c = a.commit_builder().add_member(kp).unwrap().build().unwrap();
    a.apply_pending_commit().unwrap();
    let (mut b, _) = bob.join_group(None, &c.welcome_messages[0], None).unwrap();

    // alice sends, then rotates her signature key (same identity "alice") in the next commit
    let late = a.encrypt_application_message(b"late", vec![]).unwrap();

    let cs = OpensslCryptoProvider::default().cipher_suite_provider(CS).unwrap();
    let (new_sk, new_pk) = cs.signature_key_generate().unwrap();
    let new_id = SigningIdentity::new(BasicCredential::new(b"alice".to_vec()).into_credential(), new_pk);
    let commit = a.commit_builder().set_new_signing_identity(new_sk, new_id).build().unwrap().commit_message;
    a.apply_pending_commit().unwrap();

    // bob gets the commit first, the message of the previous (retained) epoch afterwards
    b.process_incoming_message(commit).unwrap();
    let res = b.process_incoming_message(late);
    assert!(
        matches!(res, Ok(ReceivedMessage::ApplicationMessage(ref m)) if m.sender_index == 0 && m.data() == b"late"),
        "a late message of a retained epoch from a member that only rotated its signature key was refused: {:?}", res.err()
    );
}
