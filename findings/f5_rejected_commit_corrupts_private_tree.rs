// Witness for finding F5 (C04/C15/C18): update_key_schedule installs the private tree obtained
// from the received commit BEFORE the last fallible steps (PSK lookup, key schedule, confirmation
// tag comparison, prior-epoch insert).  A commit that is then rejected leaves the member with
// private keys of a tree it never adopted; the next genuine commit encrypted to the old keys can
// no longer be decrypted.  Drop into mls-rs/tests/ and run
//   cargo test -p mls-rs --test f5_rejected_commit_corrupts_private_tree --offline
use std::sync::{atomic::{AtomicBool, Ordering}, Arc};

use mls_rs::{
    client_builder::MlsConfig,
    identity::{basic::{BasicCredential, BasicIdentityProvider}, SigningIdentity},
    storage_provider::in_memory::InMemoryGroupStateStorage,
    CipherSuite, CipherSuiteProvider, Client, CryptoProvider, GroupStateStorage,
};
use mls_rs_core::group::{EpochRecord, GroupState};

const CS: CipherSuite = CipherSuite::CURVE25519_AES128;

#[derive(Clone)]
struct Flaky { inner: InMemoryGroupStateStorage, fail: Arc<AtomicBool> }
#[derive(Debug)]
struct Boom;
impl std::fmt::Display for Boom { fn fmt(&self, f: &mut std::fmt::Formatter<'_>) -> std::fmt::Result { write!(f, "boom") } }
impl std::error::Error for Boom {}
impl mls_rs_core::error::IntoAnyError for Boom {
    fn into_dyn_error(self) -> Result<Box<dyn std::error::Error + Send + Sync>, Self> { Ok(Box::new(self)) }
}
impl GroupStateStorage for Flaky {
    type Error = Boom;
    fn state(&self, id: &[u8]) -> Result<Option<zeroize::Zeroizing<Vec<u8>>>, Boom> { self.inner.state(id).map_err(|_| Boom) }
    fn epoch(&self, id: &[u8], e: u64) -> Result<Option<zeroize::Zeroizing<Vec<u8>>>, Boom> { self.inner.epoch(id, e).map_err(|_| Boom) }
    fn write(&mut self, s: GroupState, i: Vec<EpochRecord>, u: Vec<EpochRecord>) -> Result<(), Boom> { self.inner.write(s, i, u).map_err(|_| Boom) }
    fn max_epoch_id(&self, id: &[u8]) -> Result<Option<u64>, Boom> {
        if self.fail.load(Ordering::SeqCst) { return Err(Boom); }
        self.inner.max_epoch_id(id).map_err(|_| Boom)
    }
}

fn client(name: &str, fail: Arc<AtomicBool>) -> Client<impl MlsConfig> {
    let cp = mls_rs_crypto_openssl::OpensslCryptoProvider::default();
    let cs = cp.cipher_suite_provider(CS).unwrap();
    let (sk, pk) = cs.signature_key_generate().unwrap();
    let id = SigningIdentity::new(BasicCredential::new(name.as_bytes().to_vec()).into_credential(), pk);
    Client::builder()
        .identity_provider(BasicIdentityProvider)
        .crypto_provider(cp)
        .group_state_storage(Flaky { inner: InMemoryGroupStateStorage::new(), fail })
        .signing_identity(id, sk, CS)
        .build()
}

#[test]
fn rejected_commit_leaves_member_able_to_process_the_genuine_next_commit() {
    let bob_fail = Arc::new(AtomicBool::new(false));
    let never = Arc::new(AtomicBool::new(false));
    let alice = client("alice", never.clone());
    let bob = client("bob", bob_fail.clone());
    let carol = client("carol", never.clone());
    let dave = client("dave", never.clone());

    // alice creates the group and adds bob, carol, dave (leaves 0..3)
    let mut ga = alice.group_builder().unwrap().build().unwrap();
    let kps: Vec<_> = [&bob, &carol, &dave].iter()
        .map(|c| c.generate_key_package_message(Default::default(), Default::default(), None).unwrap()).collect();
    let mut b = ga.commit_builder();
    for kp in kps { b = b.add_member(kp).unwrap(); }
    let c = b.build().unwrap();
    ga.apply_pending_commit().unwrap();
    let w = &c.welcome_messages[0];
    let (mut gb, _) = bob.join_group(None, w, None).unwrap();
    let (mut gc, _) = carol.join_group(None, w, None).unwrap();

    // bob commits once (full path update), so that he is merged into every node of his direct path
    let bob_commit = gb.commit(vec![]).unwrap();
    gb.apply_pending_commit().unwrap();
    ga.process_incoming_message(bob_commit.commit_message.clone()).unwrap();
    gc.process_incoming_message(bob_commit.commit_message).unwrap();
    gb.write_to_storage().unwrap();   // bob persists: no pending prior epochs in memory

    // two commits race in the same epoch: alice's and carol's
    let alice_commit = ga.commit(vec![]).unwrap();
    let carol_commit = gc.commit(vec![]).unwrap();

    // bob first sees alice's commit while his storage is briefly unavailable: it is rejected
    bob_fail.store(true, Ordering::SeqCst);
    assert!(gb.process_incoming_message(alice_commit.commit_message).is_err());
    bob_fail.store(false, Ordering::SeqCst);
    assert_eq!(gb.current_epoch(), 2);

    // the delivery service picked carol's commit: bob, whose state must be as it was, follows it
    let res = gb.process_incoming_message(carol_commit.commit_message);
    assert!(res.is_ok(), "bob can no longer follow the group after a rejected commit: {:?}", res.err());
    assert_eq!(gb.current_epoch(), 3);
}
