// Witness for finding F29 (C07): Group::from_welcome_message never compared the signer a client joins with to the signature key of the
// leaf (key package) it joins as.  A client whose signature key was rotated while key packages made with the OLD key are still in its
// key-package store joins "successfully" through such a key package and then cannot take part: every message and commit it sends is
// refused with InvalidSignature.  C07: the joiner "can immediately exchange messages and commit".
// Drop this file into mls-rs/tests/ and run
//   cargo test -p mls-rs --test f29_joiner_signer_not_checked_against_its_leaf --offline
// Fails on the tree before the "fix: a joiner's signer ..." commit, passes after it.
use mls_rs::{
    client_builder::MlsConfig,
    identity::{basic::{BasicCredential, BasicIdentityProvider}, SigningIdentity},
    storage_provider::in_memory::InMemoryKeyPackageStorage,
    CipherSuite, CipherSuiteProvider, Client, CryptoProvider,
};
use mls_rs_crypto_openssl::OpensslCryptoProvider;

const CS: CipherSuite = CipherSuite::CURVE25519_AES128;

fn client(name: &str, store: InMemoryKeyPackageStorage) -> Client<impl MlsConfig> {
    let cp = OpensslCryptoProvider::default();
    let cs = cp.cipher_suite_provider(CS).unwrap();
    let (sk, pk) = cs.signature_key_generate().unwrap();
    let id = SigningIdentity::new(BasicCredential::new(name.as_bytes().to_vec()).into_credential(), pk);
    Client::builder().identity_provider(BasicIdentityProvider).crypto_provider(cp).key_package_repo(store).signing_identity(id, sk, CS).build()
}

#[test]
fn joining_with_a_signer_that_is_not_the_one_of_the_key_package_is_refused() {
    let alice = client("alice", Default::default());
    let store = InMemoryKeyPackageStorage::default();
    let bob_old = client("bob", store.clone());
    // the same member after a rotation of its signature key: same key-package store, same credential, new key pair
    let bob_new = client("bob", store.clone());

    let mut a = alice.group_builder().unwrap().build().unwrap();
    let kp = bob_old.generate_key_package_message(Default::default(), Default::default(), None).unwrap();
    let c = a.commit_builder().add_member(kp).unwrap().build().unwrap();
    a.apply_pending_commit().unwrap();

    match bob_new.join_group(None, &c.welcome_messages[0], None) {
        // refusing to join is fine: the key package belongs to the old signature key
        Err(_) => {}
        // but a member that did join has to be able to take part
        Ok((mut b, _)) => {
            let m = b.encrypt_application_message(b"hello", vec![]).unwrap();
            let res = a.process_incoming_message(m);
            assert!(res.is_ok(), "the joiner joined, but what it sends is refused: {:?}", res.err());
        }
    }

    // the rightful owner of the key package can still join
    assert!(bob_old.join_group(None, &c.welcome_messages[0], None).is_ok());
}
