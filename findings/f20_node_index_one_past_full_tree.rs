// WITNESS F20: "node indices outside the tree are reported as such rather than mapped to another node".
// For a FULL tree (2, 4, 8 .. leaves) the node index one past the last node was accepted and reported as a
// blank node.
use mls_rs::{
    client_builder::MlsConfig,
    identity::{basic::{BasicCredential, BasicIdentityProvider}, SigningIdentity},
    CipherSuite, CipherSuiteProvider, Client, CryptoProvider,
};
use mls_rs_crypto_openssl::OpensslCryptoProvider;

const CIPHERSUITE: CipherSuite = CipherSuite::CURVE25519_AES128;

fn make_client(name: &str) -> Client<impl MlsConfig> {
    let crypto_provider = OpensslCryptoProvider::default();
    let cs = crypto_provider.cipher_suite_provider(CIPHERSUITE).unwrap();
    let (secret, public) = cs.signature_key_generate().unwrap();
    let credential = BasicCredential::new(name.as_bytes().to_vec()).into_credential();
    Client::builder()
        .identity_provider(BasicIdentityProvider)
        .crypto_provider(crypto_provider)
        .signing_identity(SigningIdentity::new(credential, public), secret, CIPHERSUITE)
        .build()
}

#[test]
fn node_index_one_past_a_full_tree_is_out_of_range() {
    for members in 2..=9u32 {
        let alice = make_client("alice");
        let mut group = alice.group_builder().unwrap().build().unwrap();
        for i in 1..members {
            let c = make_client(&format!("member{i}"));
            let kp = c.generate_key_package_message(Default::default(), Default::default(), None).unwrap();
            group.commit_builder().add_member(kp).unwrap().build().unwrap();
            group.apply_pending_commit().unwrap();
        }
        let tree = group.export_tree();
        // number of nodes of the full tree that holds `members` leaves
        let full_nodes = 2 * members.next_power_of_two() - 1;
        for index in full_nodes..full_nodes + 3 {
            assert!(
                tree.get_parent(index).is_err(),
                "{members} members: node index {index} is outside the tree ({full_nodes} nodes) but was accepted"
            );
        }
    }
}
