// Witness for finding F23 (C04): Group::propose_update / propose_update_with_identity stored the freshly generated leaf
// secret key (and the new signer) in the group's pending updates BEFORE the proposal message was built; when building the
// message failed (here: the application's MlsRules::encryption_options returns an error) the call returned Err but the
// orphan entry stayed in the member's state - and in every snapshot written afterwards - until the next epoch.
// C04: "The same holds for a commit or proposal the member fails to build" (complete state identical to before).
// Drop this file into mls-rs/tests/ and run
//   cargo test -p mls-rs --test f23_failed_update_proposal_leaves_key_behind --offline
// Fails on the tree before the "fix: a failed update proposal ..." commit, passes after it.
use std::sync::{atomic::{AtomicBool, Ordering}, Arc};

use mls_rs::{
    client_builder::MlsConfig,
    group::{GroupContext, Roster},
    identity::{basic::{BasicCredential, BasicIdentityProvider}, SigningIdentity},
    mls_rules::{CommitDirection, CommitOptions, CommitSource, EncryptionOptions, ProposalBundle},
    storage_provider::in_memory::InMemoryGroupStateStorage,
    CipherSuite, CipherSuiteProvider, Client, CryptoProvider, GroupStateStorage, MlsRules,
};

const CS: CipherSuite = CipherSuite::CURVE25519_AES128;

#[derive(Debug)]
struct Boom;
impl std::fmt::Display for Boom { fn fmt(&self, f: &mut std::fmt::Formatter<'_>) -> std::fmt::Result { write!(f, "boom") } }
impl std::error::Error for Boom {}
impl mls_rs_core::error::IntoAnyError for Boom {
    fn into_dyn_error(self) -> Result<Box<dyn std::error::Error + Send + Sync>, Self> { Ok(Box::new(self)) }
}

#[derive(Clone)]
struct FlakyRules { fail: Arc<AtomicBool> }

impl MlsRules for FlakyRules {
    type Error = Boom;
    fn filter_proposals(&self, _: CommitDirection, _: CommitSource, _: &Roster, _: &GroupContext, proposals: ProposalBundle) -> Result<ProposalBundle, Boom> {
        Ok(proposals)
    }
    fn commit_options(&self, _: &Roster, _: &GroupContext, _: &ProposalBundle) -> Result<CommitOptions, Boom> {
        Ok(Default::default())
    }
    fn encryption_options(&self, _: &Roster, _: &GroupContext) -> Result<EncryptionOptions, Boom> {
        if self.fail.load(Ordering::SeqCst) { Err(Boom) } else { Ok(Default::default()) }
    }
}

fn client(rules: FlakyRules, storage: InMemoryGroupStateStorage) -> Client<impl MlsConfig> {
    let cp = mls_rs_crypto_openssl::OpensslCryptoProvider::default();
    let cs = cp.cipher_suite_provider(CS).unwrap();
    let (sk, pk) = cs.signature_key_generate().unwrap();
    let id = SigningIdentity::new(BasicCredential::new(b"alice".to_vec()).into_credential(), pk);
    Client::builder()
        .identity_provider(BasicIdentityProvider)
        .crypto_provider(cp)
        .mls_rules(rules)
        .group_state_storage(storage)
        .signing_identity(id, sk, CS)
        .build()
}

#[test]
fn update_proposal_that_cannot_be_built_leaves_the_member_unchanged() {
    let fail = Arc::new(AtomicBool::new(false));
    let storage = InMemoryGroupStateStorage::new();
    let alice = client(FlakyRules { fail: fail.clone() }, storage.clone());
    let mut g = alice.group_builder().unwrap().build().unwrap();
    let id = g.group_id().to_vec();

    g.write_to_storage().unwrap();
    let before = storage.state(&id).unwrap().unwrap();

    fail.store(true, Ordering::SeqCst);
    assert!(g.propose_update(vec![]).is_err());
    fail.store(false, Ordering::SeqCst);

    g.write_to_storage().unwrap();
    let after = storage.state(&id).unwrap().unwrap();
    assert_eq!(before.len(), after.len(), "the failed propose_update left key material behind in the member's state");
    assert!(before == after, "the failed propose_update changed the member's state");
}
