// Witness for finding F28 (C11): Group::apply_detached_commit installed the new epoch but left a pending commit that had been built
// on the epoch just left in its slot.  The stale pending commit can never be applied (InvalidEpoch), yet it blocks commit()
// (ExistingPendingCommit) in the new epoch until the application calls clear_pending_commit(), and it is written to storage with
// the new epoch.  Every other way of leaving an epoch (apply_pending_commit, processing somebody else's commit) empties the slot.
// Drop this file into mls-rs/tests/ and run
//   cargo test -p mls-rs --test f28_detached_apply_keeps_stale_pending_commit --offline
// Fails on the tree before the "fix: applying a detached commit ..." commit, passes after it.
use mls_rs::{
    client_builder::MlsConfig,
    identity::{basic::{BasicCredential, BasicIdentityProvider}, SigningIdentity},
    CipherSuite, CipherSuiteProvider, Client, CryptoProvider,
};
use mls_rs_crypto_openssl::OpensslCryptoProvider;

const CS: CipherSuite = CipherSuite::CURVE25519_AES128;

fn client(name: &str) -> Client<impl MlsConfig> {
    let cp = OpensslCryptoProvider::default();
    let cs = cp.cipher_suite_provider(CS).unwrap();
    let (sk, pk) = cs.signature_key_generate().unwrap();
    let id = SigningIdentity::new(BasicCredential::new(name.as_bytes().to_vec()).into_credential(), pk);
    Client::builder().identity_provider(BasicIdentityProvider).crypto_provider(cp).signing_identity(id, sk, CS).build()
}

#[test]
fn applying_a_detached_commit_discards_the_pending_commit_of_the_epoch_it_leaves() {
    let alice = client("alice");
    let bob = client("bob");
    let mut a = alice.group_builder().unwrap().build().unwrap();
    let kp = bob.generate_key_package_message(Default::default(), Default::default(), None).unwrap();
    let c = a.commit_builder().add_member(kp).unwrap().build().unwrap();
    a.apply_pending_commit().unwrap();
    let (mut b, _) = bob.join_group(None, &c.welcome_messages[0], None).unwrap();

    // two commits for epoch 1: a detached one (A) and a pending one (B); the delivery service picks A
    let (out_a, secrets_a) = a.commit_builder().authenticated_data(b"A".to_vec()).build_detached().unwrap();
    a.commit_builder().authenticated_data(b"B".to_vec()).build().unwrap();
    assert!(a.has_pending_commit());

    b.process_incoming_message(out_a.commit_message).unwrap();
    a.apply_detached_commit(secrets_a).unwrap();
    assert_eq!(a.current_epoch(), b.current_epoch());

    assert!(!a.has_pending_commit(), "the pending commit built on the epoch that is gone is still in its slot");
    a.commit(vec![]).expect("a member that entered a new epoch can build a commit");
}
