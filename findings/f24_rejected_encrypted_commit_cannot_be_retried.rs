// Witness for finding F24 (C04, C15): when handshake messages are sent encrypted (EncryptionOptions::new(true, ..)),
// opening a commit consumed the committer's message key; when the commit was then rejected for a reason that can go away
// (the receiver does not hold the PSK yet; its group-state storage is unreachable while the epoch is recorded), the key
// stayed consumed and processing the SAME commit again failed with KeyMissing: the member could never enter the epoch.
// C04: "it still accepts the genuine next message (including the genuine version of the one that was rejected)";
// C15: "a received commit is not lost ... once the storage works again, repeating the operation succeeds".
// Drop this file into mls-rs/tests/ and run
//   cargo test -p mls-rs --test f24_rejected_encrypted_commit_cannot_be_retried --offline
// Fails on the tree before the "fix: a rejected encrypted commit ..." commit, passes after it.
use mls_rs::{
    client_builder::MlsConfig,
    group::ReceivedMessage,
    identity::{basic::{BasicCredential, BasicIdentityProvider}, SigningIdentity},
    mls_rules::{DefaultMlsRules, EncryptionOptions},
    psk::{ExternalPskId, PreSharedKey},
    storage_provider::in_memory::InMemoryPreSharedKeyStorage,
    CipherSuite, CipherSuiteProvider, Client, CryptoProvider,
};

const CS: CipherSuite = CipherSuite::CURVE25519_AES128;

fn client(name: &str, psks: InMemoryPreSharedKeyStorage) -> Client<impl MlsConfig> {
    let cp = mls_rs_crypto_openssl::OpensslCryptoProvider::default();
    let cs = cp.cipher_suite_provider(CS).unwrap();
    let (sk, pk) = cs.signature_key_generate().unwrap();
    let id = SigningIdentity::new(BasicCredential::new(name.as_bytes().to_vec()).into_credential(), pk);
    Client::builder()
        .identity_provider(BasicIdentityProvider)
        .crypto_provider(cp)
        .psk_store(psks)
        .mls_rules(DefaultMlsRules::new().with_encryption_options(EncryptionOptions::new(true, Default::default())))
        .signing_identity(id, sk, CS)
        .build()
}

#[test]
fn encrypted_commit_rejected_for_a_missing_psk_is_accepted_once_the_psk_is_there() {
    let psk_id = ExternalPskId::new(b"psk".to_vec());
    let psk = PreSharedKey::new(vec![7u8; 32]);

    let mut alice_psks = InMemoryPreSharedKeyStorage::default();
    alice_psks.insert(psk_id.clone(), psk.clone());
    let mut bob_psks = InMemoryPreSharedKeyStorage::default();

    let alice = client("alice", alice_psks);
    let bob = client("bob", bob_psks.clone());

    let mut a = alice.group_builder().unwrap().build().unwrap();
    let kp = bob.generate_key_package_message(Default::default(), Default::default(), None).unwrap();
    let c = a.commit_builder().add_member(kp).unwrap().build().unwrap();
    a.apply_pending_commit().unwrap();
    let (mut b, _) = bob.join_group(None, &c.welcome_messages[0], None).unwrap();

    // alice commits an external PSK that bob does not hold yet; the commit travels as a PrivateMessage
    let commit = a.commit_builder().add_external_psk(psk_id.clone()).unwrap().build().unwrap().commit_message;
    a.apply_pending_commit().unwrap();

    let first = b.process_incoming_message(commit.clone());
    assert!(first.is_err(), "bob does not hold the PSK");
    assert_eq!(b.current_epoch(), 1);

    // bob gets the PSK and processes the genuine commit again
    bob_psks.insert(psk_id, psk);
    let second = b.process_incoming_message(commit);
    assert!(matches!(second, Ok(ReceivedMessage::Commit(_))), "the rejected commit can not be processed again: {:?}", second.err());
    assert_eq!(b.current_epoch(), a.current_epoch());
}
