// Witness for finding F9 (C11): a stale detached commit is applied on top of a newer epoch.
// Drop into mls-rs/tests/ and run
//   cargo test -p mls-rs --test f9_stale_detached_commit --offline
use mls_rs::{
    client_builder::MlsConfig,
    identity::{basic::{BasicCredential, BasicIdentityProvider}, SigningIdentity},
    CipherSuite, CipherSuiteProvider, Client, CryptoProvider,
};

const CS: CipherSuite = CipherSuite::CURVE25519_AES128;

fn client() -> Client<impl MlsConfig> {
    let cp = mls_rs_crypto_openssl::OpensslCryptoProvider::default();
    let cs = cp.cipher_suite_provider(CS).unwrap();
    let (sk, pk) = cs.signature_key_generate().unwrap();
    let id = SigningIdentity::new(BasicCredential::new(b"alice".to_vec()).into_credential(), pk);
    Client::builder()
        .identity_provider(BasicIdentityProvider)
        .crypto_provider(cp)
        .signing_identity(id, sk, CS)
        .build()
}

#[test]
fn stale_detached_commit_is_refused() {
    let mut group = client().group_builder().unwrap().build().unwrap();

    // detached commit built in epoch 0 (would lead to epoch 1) and kept aside
    let (_msg, stale) = group.commit_builder().build_detached().unwrap();

    // meanwhile the group advances twice through ordinary commits: epoch 2
    group.commit(vec![]).unwrap();
    group.apply_pending_commit().unwrap();
    group.commit(vec![]).unwrap();
    group.apply_pending_commit().unwrap();
    assert_eq!(group.current_epoch(), 2);

    // applying the stale secrets must fail and leave the group where it is
    let res = group.apply_detached_commit(stale);
    assert!(res.is_err(), "stale detached commit (built for epoch 0 -> 1) accepted at epoch 2");
    assert_eq!(group.current_epoch(), 2);
}
