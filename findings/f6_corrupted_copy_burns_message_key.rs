// Witness for finding F6 (C04/C05): CiphertextProcessor::open removes the message key from the
// sender's ratchet before the content AEAD has been opened.  A corrupted COPY of a genuine private
// message (one ciphertext byte flipped outside the sender-data sample; no secret needed) is rejected,
// but it burns the key, so the genuine message is rejected afterwards as well.
// Drop into mls-rs/tests/ and run
//   cargo test -p mls-rs --test f6_corrupted_copy_burns_message_key --offline
use mls_rs::{
    client_builder::MlsConfig,
    identity::{basic::{BasicCredential, BasicIdentityProvider}, SigningIdentity},
    CipherSuite, CipherSuiteProvider, Client, CryptoProvider, MlsMessage,
};

const CS: CipherSuite = CipherSuite::CURVE25519_AES128;

fn client(name: &str) -> Client<impl MlsConfig> {
    let cp = mls_rs_crypto_openssl::OpensslCryptoProvider::default();
    let cs = cp.cipher_suite_provider(CS).unwrap();
    let (sk, pk) = cs.signature_key_generate().unwrap();
    let id = SigningIdentity::new(BasicCredential::new(name.as_bytes().to_vec()).into_credential(), pk);
    Client::builder().identity_provider(BasicIdentityProvider).crypto_provider(cp).signing_identity(id, sk, CS).build()
}

#[test]
fn genuine_message_is_accepted_after_a_corrupted_copy_was_rejected() {
    let alice = client("alice");
    let bob = client("bob");
    let mut ga = alice.group_builder().unwrap().build().unwrap();
    let kp = bob.generate_key_package_message(Default::default(), Default::default(), None).unwrap();
    let c = ga.commit_builder().add_member(kp).unwrap().build().unwrap();
    ga.apply_pending_commit().unwrap();
    let (mut gb, _) = bob.join_group(None, &c.welcome_messages[0], None).unwrap();

    let genuine = ga.encrypt_application_message(b"hello bob", vec![]).unwrap();
    let mut bytes = genuine.to_bytes().unwrap();
    let last = bytes.len() - 1;
    bytes[last] ^= 0x01;                               // last byte of the AEAD ciphertext / tag
    let corrupted = MlsMessage::from_bytes(&bytes).unwrap();

    assert!(gb.process_incoming_message(corrupted).is_err());
    let res = gb.process_incoming_message(genuine);
    assert!(res.is_ok(), "genuine message rejected after a corrupted copy: {:?}", res.err());
}
