// WITNESS F19: a member that processes somebody else's commit which REMOVES it must lose its own
// pending commit ("processing somebody else's commit first discards the pending one").
use mls_rs::{
    client_builder::MlsConfig,
    group::{CommitEffect, ReceivedMessage},
    identity::{basic::{BasicCredential, BasicIdentityProvider}, SigningIdentity},
    CipherSuite, CipherSuiteProvider, Client, CryptoProvider,
};
use mls_rs_crypto_openssl::OpensslCryptoProvider;

const CIPHERSUITE: CipherSuite = CipherSuite::CURVE25519_AES128;

fn make_client(name: &str) -> Client<impl MlsConfig> {
    let crypto_provider = OpensslCryptoProvider::default();
    let cs = crypto_provider.cipher_suite_provider(CIPHERSUITE).unwrap();
    let (secret, public) = cs.signature_key_generate().unwrap();
    let credential = BasicCredential::new(name.as_bytes().to_vec()).into_credential();
    Client::builder()
        .identity_provider(BasicIdentityProvider)
        .crypto_provider(crypto_provider)
        .signing_identity(SigningIdentity::new(credential, public), secret, CIPHERSUITE)
        .build()
}

#[test]
fn a_removed_member_does_not_keep_its_pending_commit() {
    let alice = make_client("alice");
    let bob = make_client("bob");
    let mut a = alice.group_builder().unwrap().build().unwrap();
    let kp = bob.generate_key_package_message(Default::default(), Default::default(), None).unwrap();
    let c = a.commit_builder().add_member(kp).unwrap().build().unwrap();
    a.apply_pending_commit().unwrap();
    let (mut b, _) = bob.join_group(None, &c.welcome_messages[0], None).unwrap();

    // both commit in the same epoch: alice an empty commit, bob the removal of alice
    let _alices = a.commit(vec![]).unwrap();
    let bobs = b.commit_builder().remove_member(0).unwrap().build().unwrap();
    assert!(a.has_pending_commit());

    // the delivery service picks bob's commit
    let received = a.process_incoming_message(bobs.commit_message).unwrap();
    assert!(matches!(received, ReceivedMessage::Commit(ref d) if matches!(d.effect, CommitEffect::Removed { .. })));

    // alice's own commit lost the race: it must be gone, and she must not be able to apply it
    assert!(!a.has_pending_commit(), "the pending commit survived the foreign commit");
    assert!(a.apply_pending_commit().is_err());
}
