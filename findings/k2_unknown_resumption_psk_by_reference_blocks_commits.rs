// Witness for known finding K2 (C10): a by-reference PreSharedKey proposal that names a resumption PSK of an epoch
// nobody has (here: a FUTURE epoch) is not dropped by the committer's proposal filter (filter_out_invalid_psks accepts
// every resumption id); the commit then fails when the PSK is resolved, and every commit of this epoch fails the same
// way until the application clears its proposal cache.  C10: an unknown PSK "is silently dropped when it came in by
// reference".  Fails on the real code (commit -> Err(OldGroupStateNotFound)).
// Run: copy to mls-rs/tests/, cargo test -p mls-rs --offline --test k2_unknown_resumption_psk_by_reference_blocks_commits
use mls_rs::{
    client_builder::MlsConfig,
    identity::{basic::{BasicCredential, BasicIdentityProvider}, SigningIdentity},
    CipherSuite, CipherSuiteProvider, Client, CryptoProvider,
};
use mls_rs_crypto_openssl::OpensslCryptoProvider;

const CIPHERSUITE: CipherSuite = CipherSuite::CURVE25519_AES128;

fn make_client(name: &str) -> Client<impl MlsConfig> {
    let crypto_provider = OpensslCryptoProvider::default();
    let cs = crypto_provider.cipher_suite_provider(CIPHERSUITE).unwrap();
    let (secret, public) = cs.signature_key_generate().unwrap();
    let credential = BasicCredential::new(name.as_bytes().to_vec()).into_credential();
    Client::builder()
        .identity_provider(BasicIdentityProvider)
        .crypto_provider(crypto_provider)
        .signing_identity(SigningIdentity::new(credential, public), secret, CIPHERSUITE)
        .build()
}

#[test]
fn unknown_resumption_psk_proposed_by_reference_is_dropped_by_the_committer() {
    let alice = make_client("alice");
    let bob = make_client("bob");
    let mut a = alice.group_builder().unwrap().build().unwrap();

    let kp = bob.generate_key_package_message(Default::default(), Default::default(), None).unwrap();
    let c = a.commit_builder().add_member(kp).unwrap().build().unwrap();
    a.apply_pending_commit().unwrap();
    let (mut b, _) = bob.join_group(None, &c.welcome_messages[0], None).unwrap();

    // bob proposes a resumption PSK of an epoch that does not exist
    let p = b.propose_resumption_psk(999, vec![]).unwrap();
    a.process_incoming_message(p).unwrap();

    // alice commits whatever is cached: the unusable by-reference proposal has to be left out
    let out = a.commit(vec![]);
    assert!(out.is_ok(), "commit refused because of a cached by-reference proposal: {:?}", out.err());
    assert_eq!(out.unwrap().unused_proposals.len(), 1);
}
