// Witness for finding F10 (C15): GroupStateRepository::write_to_storage keeps the prior-epoch
// records pending when the key-package deletion fails AFTER the storage write succeeded; the
// retry writes the same epochs a second time, so the stored history differs from a fault-free run.
// Drop into mls-rs/tests/ and run
//   cargo test -p mls-rs --test f10_write_to_storage_retry_duplicates --offline
use std::sync::{atomic::{AtomicBool, Ordering}, Arc};

use mls_rs::{
    client_builder::MlsConfig,
    identity::{basic::{BasicCredential, BasicIdentityProvider}, SigningIdentity},
    storage_provider::{in_memory::{InMemoryGroupStateStorage, InMemoryKeyPackageStorage}, KeyPackageData},
    CipherSuite, CipherSuiteProvider, Client, CryptoProvider, GroupStateStorage, KeyPackageStorage,
};

const CS: CipherSuite = CipherSuite::CURVE25519_AES128;

#[derive(Debug)]
struct Boom;
impl std::fmt::Display for Boom { fn fmt(&self, f: &mut std::fmt::Formatter<'_>) -> std::fmt::Result { write!(f, "boom") } }
impl std::error::Error for Boom {}
impl mls_rs_core::error::IntoAnyError for Boom {
    fn into_dyn_error(self) -> Result<Box<dyn std::error::Error + Send + Sync>, Self> { Ok(Box::new(self)) }
}

#[derive(Clone)]
struct FlakyKp { inner: InMemoryKeyPackageStorage, fail_delete: Arc<AtomicBool> }
impl KeyPackageStorage for FlakyKp {
    type Error = Boom;
    fn delete(&mut self, id: &[u8]) -> Result<(), Boom> {
        if self.fail_delete.load(Ordering::SeqCst) { return Err(Boom); }
        KeyPackageStorage::delete(&mut self.inner, id).map_err(|_| Boom)
    }
    fn insert(&mut self, id: Vec<u8>, pkg: KeyPackageData) -> Result<(), Boom> { KeyPackageStorage::insert(&mut self.inner, id, pkg).map_err(|_| Boom) }
    fn get(&self, id: &[u8]) -> Result<Option<KeyPackageData>, Boom> { KeyPackageStorage::get(&self.inner, id).map_err(|_| Boom) }
}

fn client(name: &str, kp: FlakyKp, gs: InMemoryGroupStateStorage) -> Client<impl MlsConfig> {
    let cp = mls_rs_crypto_openssl::OpensslCryptoProvider::default();
    let cs = cp.cipher_suite_provider(CS).unwrap();
    let (sk, pk) = cs.signature_key_generate().unwrap();
    let id = SigningIdentity::new(BasicCredential::new(name.as_bytes().to_vec()).into_credential(), pk);
    Client::builder()
        .identity_provider(BasicIdentityProvider)
        .crypto_provider(cp)
        .key_package_repo(kp)
        .group_state_storage(gs)
        .signing_identity(id, sk, CS)
        .build()
}

/// returns, for epoch ids 0..4, whether the storage still returns a record for that id
fn run(fault: bool) -> Vec<bool> {
    let fail = Arc::new(AtomicBool::new(false));
    let alice = client("alice", FlakyKp { inner: Default::default(), fail_delete: Arc::new(AtomicBool::new(false)) }, InMemoryGroupStateStorage::new());
    let bob_store = InMemoryGroupStateStorage::new();
    let bob = client("bob", FlakyKp { inner: Default::default(), fail_delete: fail.clone() }, bob_store.clone());

    let mut ga = alice.group_builder().unwrap().build().unwrap();
    let kp = bob.generate_key_package_message(Default::default(), Default::default(), None).unwrap();
    let c = ga.commit_builder().add_member(kp).unwrap().build().unwrap();
    ga.apply_pending_commit().unwrap();
    let (mut gb, _) = bob.join_group(None, &c.welcome_messages[0], None).unwrap();
    let gid = gb.group_id().to_vec();

    // two more epochs, so that bob has two prior epochs pending
    for _ in 0..2 {
        let c = ga.commit(vec![]).unwrap();
        ga.apply_pending_commit().unwrap();
        gb.process_incoming_message(c.commit_message).unwrap();
    }

    if fault {
        fail.store(true, Ordering::SeqCst);
        assert!(gb.write_to_storage().is_err());   // storage write succeeded, key package delete failed
        fail.store(false, Ordering::SeqCst);
    }
    gb.write_to_storage().unwrap();                // (re)try succeeds

    (0..5u64).map(|e| bob_store.epoch(&gid, e).unwrap().is_some()).collect()
}

#[test]
fn retry_after_key_package_delete_failure_gives_the_same_stored_history() {
    assert_eq!(run(true), run(false), "stored prior-epoch history differs after a transient key-package-store fault");
}
