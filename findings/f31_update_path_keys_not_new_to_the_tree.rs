// Witness for finding F31 (C09): receivers did not check that the node keys of an UpdatePath are new to the tree
// (RFC 9420 12.4.2: "Verify that none of the public keys in the UpdatePath appear in any node of the new ratchet
// tree").  A committer whose random number generator repeats itself draws the same path secret twice; its second
// commit re-announces the parent keys of the previous epoch, and every receiver accepted it - after which the nodes
// on the committer's direct path carry public keys that DID appear in the previous epoch's tree (no forward secrecy
// / post-compromise security from that commit).
// Drop into mls-rs/tests/ and run
//   cargo test -p mls-rs --test f31_update_path_keys_not_new_to_the_tree --offline
use std::sync::{atomic::{AtomicBool, Ordering}, Arc};

use mls_rs::{
    client_builder::MlsConfig,
    crypto::{HpkeCiphertext, HpkePublicKey, HpkeSecretKey, SignaturePublicKey, SignatureSecretKey},
    identity::{basic::{BasicCredential, BasicIdentityProvider}, SigningIdentity},
    CipherSuite, CipherSuiteProvider, Client, CryptoProvider,
};
use mls_rs_core::crypto::HpkePsk;
use mls_rs_crypto_openssl::OpensslCryptoProvider;
use zeroize::Zeroizing;

const CS: CipherSuite = CipherSuite::CURVE25519_AES128;

type Inner = <OpensslCryptoProvider as CryptoProvider>::CipherSuiteProvider;

#[derive(Clone)]
struct FlakyCrypto { inner: OpensslCryptoProvider, fixed_random: Arc<AtomicBool> }
#[derive(Clone)]
struct FlakySuite { inner: Inner, fixed_random: Arc<AtomicBool> }

#[derive(Debug)]
struct Boom(String);
impl std::fmt::Display for Boom { fn fmt(&self, f: &mut std::fmt::Formatter<'_>) -> std::fmt::Result { write!(f, "{}", self.0) } }
impl std::error::Error for Boom {}
impl mls_rs_core::error::IntoAnyError for Boom {
    fn into_dyn_error(self) -> Result<Box<dyn std::error::Error + Send + Sync>, Self> { Ok(Box::new(self)) }
}
fn b<E: std::fmt::Debug>(e: E) -> Boom { Boom(format!("{e:?}")) }

impl CryptoProvider for FlakyCrypto {
    type CipherSuiteProvider = FlakySuite;
    fn supported_cipher_suites(&self) -> Vec<CipherSuite> { self.inner.supported_cipher_suites() }
    fn cipher_suite_provider(&self, cs: CipherSuite) -> Option<FlakySuite> {
        self.inner.cipher_suite_provider(cs).map(|inner| FlakySuite { inner, fixed_random: self.fixed_random.clone() })
    }
}

impl CipherSuiteProvider for FlakySuite {
    type Error = Boom;
    type HpkeContextS = <Inner as CipherSuiteProvider>::HpkeContextS;
    type HpkeContextR = <Inner as CipherSuiteProvider>::HpkeContextR;
    fn cipher_suite(&self) -> CipherSuite { self.inner.cipher_suite() }
    fn hash(&self, d: &[u8]) -> Result<Vec<u8>, Boom> { self.inner.hash(d).map_err(b) }
    fn mac(&self, k: &[u8], d: &[u8]) -> Result<Vec<u8>, Boom> { self.inner.mac(k, d).map_err(b) }
    fn aead_seal(&self, k: &[u8], d: &[u8], a: Option<&[u8]>, n: &[u8]) -> Result<Vec<u8>, Boom> { self.inner.aead_seal(k, d, a, n).map_err(b) }
    fn aead_open(&self, k: &[u8], c: &[u8], a: Option<&[u8]>, n: &[u8]) -> Result<Zeroizing<Vec<u8>>, Boom> { self.inner.aead_open(k, c, a, n).map_err(b) }
    fn aead_key_size(&self) -> usize { self.inner.aead_key_size() }
    fn aead_nonce_size(&self) -> usize { self.inner.aead_nonce_size() }
    fn kdf_extract(&self, s: &[u8], i: &[u8]) -> Result<Zeroizing<Vec<u8>>, Boom> { self.inner.kdf_extract(s, i).map_err(b) }
    fn kdf_expand(&self, p: &[u8], i: &[u8], l: usize) -> Result<Zeroizing<Vec<u8>>, Boom> {
        self.inner.kdf_expand(p, i, l).map_err(b)
    }
    fn kdf_extract_size(&self) -> usize { self.inner.kdf_extract_size() }
    fn hpke_seal(&self, r: &HpkePublicKey, i: &[u8], a: Option<&[u8]>, p: &[u8]) -> Result<HpkeCiphertext, Boom> { self.inner.hpke_seal(r, i, a, p).map_err(b) }
    fn hpke_seal_psk(&self, r: &HpkePublicKey, i: &[u8], a: Option<&[u8]>, p: &[u8], psk: HpkePsk<'_>) -> Result<HpkeCiphertext, Boom> { self.inner.hpke_seal_psk(r, i, a, p, psk).map_err(b) }
    fn hpke_open(&self, c: &HpkeCiphertext, s: &HpkeSecretKey, p: &HpkePublicKey, i: &[u8], a: Option<&[u8]>) -> Result<Zeroizing<Vec<u8>>, Boom> { self.inner.hpke_open(c, s, p, i, a).map_err(b) }
    fn hpke_open_psk(&self, c: &HpkeCiphertext, s: &HpkeSecretKey, p: &HpkePublicKey, i: &[u8], a: Option<&[u8]>, psk: HpkePsk<'_>) -> Result<Zeroizing<Vec<u8>>, Boom> { self.inner.hpke_open_psk(c, s, p, i, a, psk).map_err(b) }
    fn hpke_setup_s(&self, r: &HpkePublicKey, i: &[u8]) -> Result<(Vec<u8>, Self::HpkeContextS), Boom> { self.inner.hpke_setup_s(r, i).map_err(b) }
    fn hpke_setup_r(&self, k: &[u8], s: &HpkeSecretKey, p: &HpkePublicKey, i: &[u8]) -> Result<Self::HpkeContextR, Boom> { self.inner.hpke_setup_r(k, s, p, i).map_err(b) }
    fn kem_derive(&self, ikm: &[u8]) -> Result<(HpkeSecretKey, HpkePublicKey), Boom> { self.inner.kem_derive(ikm).map_err(b) }
    fn kem_generate(&self) -> Result<(HpkeSecretKey, HpkePublicKey), Boom> { self.inner.kem_generate().map_err(b) }
    fn kem_public_key_validate(&self, k: &HpkePublicKey) -> Result<(), Boom> { self.inner.kem_public_key_validate(k).map_err(b) }
    fn random_bytes(&self, o: &mut [u8]) -> Result<(), Boom> {
        // a random number generator that repeats itself (restored VM snapshot, broken entropy source)
        if self.fixed_random.load(Ordering::SeqCst) { o.fill(0x42); return Ok(()); }
        self.inner.random_bytes(o).map_err(b)
    }
    fn signature_key_generate(&self) -> Result<(SignatureSecretKey, SignaturePublicKey), Boom> { self.inner.signature_key_generate().map_err(b) }
    fn signature_key_derive_public(&self, s: &SignatureSecretKey) -> Result<SignaturePublicKey, Boom> { self.inner.signature_key_derive_public(s).map_err(b) }
    fn sign(&self, s: &SignatureSecretKey, d: &[u8]) -> Result<Vec<u8>, Boom> { self.inner.sign(s, d).map_err(b) }
    fn verify(&self, p: &SignaturePublicKey, s: &[u8], d: &[u8]) -> Result<(), Boom> { self.inner.verify(p, s, d).map_err(b) }
}

fn client(name: &str, fail: Arc<AtomicBool>) -> Client<impl MlsConfig> {
    let cp = FlakyCrypto { inner: OpensslCryptoProvider::default(), fixed_random: fail };
    let cs = cp.cipher_suite_provider(CS).unwrap();
    let (sk, pk) = cs.signature_key_generate().unwrap();
    let id = SigningIdentity::new(BasicCredential::new(name.as_bytes().to_vec()).into_credential(), pk);
    Client::builder().identity_provider(BasicIdentityProvider).crypto_provider(cp).signing_identity(id, sk, CS).build()
}

#[test]
fn commit_that_reuses_parent_keys_is_refused() {
    let fixed = Arc::new(AtomicBool::new(false));
    let alice = client("alice", fixed.clone());
    let mut ga = alice.group_builder().unwrap().build().unwrap();
    let mut others = vec![];
    for name in ["bob", "carol"] {
        let c = client(name, Arc::new(AtomicBool::new(false)));
        let kp = c.generate_key_package_message(Default::default(), Default::default(), None).unwrap();
        let out = ga.commit_builder().add_member(kp).unwrap().build().unwrap();
        ga.apply_pending_commit().unwrap();
        for g in others.iter_mut() {
            let g: &mut mls_rs::Group<_> = g;
            g.process_incoming_message(out.commit_message.clone()).unwrap();
        }
        let (g, _) = c.join_group(None, &out.welcome_messages[0], None).unwrap();
        others.push(g);
    }

    // alice's random number generator starts repeating itself: two commits with the same path secret
    fixed.store(true, Ordering::SeqCst);
    let first = ga.commit(vec![]).unwrap();
    ga.apply_pending_commit().unwrap();
    for g in others.iter_mut() { g.process_incoming_message(first.commit_message.clone()).unwrap(); }
    let tree_before = others[0].export_tree().to_bytes().unwrap();

    let second = ga.commit(vec![]).unwrap();
    let res = others[0].process_incoming_message(second.commit_message.clone());
    assert!(res.is_err(), "a commit whose path re-announces the previous epoch's parent keys was accepted");
    assert_eq!(others[0].export_tree().to_bytes().unwrap(), tree_before);
}
