// WITNESS F18: default commit options (no forced path). A member added by a commit in which the committer also rotates its own
// signature key must be able to join from the Welcome and ends up in the same state as the
// existing members.

use mls_rs::{
    client_builder::MlsConfig,
    group::ReceivedMessage,
    identity::{
        basic::{BasicCredential, BasicIdentityProvider},
        SigningIdentity,
    },
    mls_rules::{CommitOptions, DefaultMlsRules},
    CipherSuite, CipherSuiteProvider, Client, CryptoProvider, Group,
};
use mls_rs_crypto_openssl::OpensslCryptoProvider;

const CIPHERSUITE: CipherSuite = CipherSuite::CURVE25519_AES128;

fn make_client(name: &str) -> Client<impl MlsConfig> {
    let crypto_provider = OpensslCryptoProvider::default();
    let cs = crypto_provider.cipher_suite_provider(CIPHERSUITE).unwrap();
    let (secret, public) = cs.signature_key_generate().unwrap();
    let credential = BasicCredential::new(name.as_bytes().to_vec()).into_credential();

    Client::builder()
        .identity_provider(BasicIdentityProvider)
        .crypto_provider(crypto_provider)
        .mls_rules(
            DefaultMlsRules::default()
                .with_commit_options(CommitOptions::default()),
        )
        .signing_identity(SigningIdentity::new(credential, public), secret, CIPHERSUITE)
        .build()
}

fn assert_same_state<A: MlsConfig, B: MlsConfig>(a: &Group<A>, b: &Group<B>) {
    assert_eq!(a.context(), b.context());
    assert_eq!(
        a.epoch_authenticator().unwrap(),
        b.epoch_authenticator().unwrap()
    );
    assert_eq!(
        a.export_secret(b"label", b"ctx", 32).unwrap(),
        b.export_secret(b"label", b"ctx", 32).unwrap()
    );
    assert_eq!(a.export_tree(), b.export_tree());
}

fn run(rotate_committer_key: bool) {
    let alice = make_client("alice");
    let bob = make_client("bob");
    let carol = make_client("carol");

    let mut alice_group = alice.group_builder().unwrap().build().unwrap();

    let bob_kp = bob
        .generate_key_package_message(Default::default(), Default::default(), None)
        .unwrap();

    let commit = alice_group
        .commit_builder()
        .add_member(bob_kp)
        .unwrap()
        .build()
        .unwrap();

    alice_group.apply_pending_commit().unwrap();

    let (mut bob_group, _) = bob
        .join_group(None, &commit.welcome_messages[0], None)
        .unwrap();

    assert_same_state(&alice_group, &bob_group);

    // Alice adds Carol, optionally replacing her own signature key in the same commit.
    let carol_kp = carol
        .generate_key_package_message(Default::default(), Default::default(), None)
        .unwrap();

    let builder = alice_group.commit_builder().add_member(carol_kp).unwrap();

    let builder = if rotate_committer_key {
        let cs = OpensslCryptoProvider::default()
            .cipher_suite_provider(CIPHERSUITE)
            .unwrap();

        let (new_secret, new_public) = cs.signature_key_generate().unwrap();
        let credential = BasicCredential::new(b"alice".to_vec()).into_credential();

        builder.set_new_signing_identity(new_secret, SigningIdentity::new(credential, new_public))
    } else {
        builder
    };

    let commit = builder.build().unwrap();
    alice_group.apply_pending_commit().unwrap();

    bob_group
        .process_incoming_message(commit.commit_message.clone())
        .unwrap();

    assert_same_state(&alice_group, &bob_group);

    let (mut carol_group, _) = carol
        .join_group(None, &commit.welcome_messages[0], None)
        .expect("the joiner must be able to join from the Welcome");

    assert_same_state(&alice_group, &carol_group);

    // The joiner can immediately exchange messages ...
    let msg = alice_group
        .encrypt_application_message(b"hello carol", Default::default())
        .unwrap();

    let received = carol_group.process_incoming_message(msg).unwrap();
    assert!(matches!(received, ReceivedMessage::ApplicationMessage(m) if m.data() == b"hello carol"));

    // ... and commit.
    let commit = carol_group.commit(vec![]).unwrap();
    carol_group.apply_pending_commit().unwrap();

    alice_group
        .process_incoming_message(commit.commit_message.clone())
        .unwrap();

    bob_group
        .process_incoming_message(commit.commit_message)
        .unwrap();

    assert_same_state(&alice_group, &carol_group);
    assert_same_state(&bob_group, &carol_group);
}

#[test]
fn joiner_added_while_committer_rotates_signature_key() {
    run(true);
}

#[test]
fn joiner_added_without_rotation() {
    run(false);
}
