// Witness for finding F7 (C16): ExternalGroup::min_epoch_available computes `epoch - jitter`
// without a floor; with max_epoch_jitter larger than the current epoch, processing any private
// application message panics (debug) / wraps and rejects everything (release).
// Drop into mls-rs/tests/ and run
//   cargo test -p mls-rs --features external_client --test f7_observer_jitter_underflow --offline
use mls_rs::{
    client_builder::MlsConfig,
    external_client::ExternalClient,
    identity::{basic::{BasicCredential, BasicIdentityProvider}, SigningIdentity},
    CipherSuite, CipherSuiteProvider, Client, CryptoProvider,
};

const CS: CipherSuite = CipherSuite::CURVE25519_AES128;

fn client() -> Client<impl MlsConfig> {
    let cp = mls_rs_crypto_openssl::OpensslCryptoProvider::default();
    let cs = cp.cipher_suite_provider(CS).unwrap();
    let (sk, pk) = cs.signature_key_generate().unwrap();
    let id = SigningIdentity::new(BasicCredential::new(b"alice".to_vec()).into_credential(), pk);
    Client::builder()
        .identity_provider(BasicIdentityProvider)
        .crypto_provider(cp)
        .signing_identity(id, sk, CS)
        .build()
}

#[test]
fn observer_with_jitter_larger_than_epoch_lets_ciphertext_through() {
    let mut group = client().group_builder().unwrap().build().unwrap();
    group.commit(vec![]).unwrap();
    group.apply_pending_commit().unwrap();           // epoch 1

    let info = group.group_info_message_allowing_ext_commit(true).unwrap();
    let observer = ExternalClient::builder()
        .crypto_provider(mls_rs_crypto_openssl::OpensslCryptoProvider::default())
        .identity_provider(BasicIdentityProvider)
        .max_epoch_jitter(5)                            // window larger than the epoch number
        .build();
    let mut observer = observer.observe_group(info, None, None).unwrap();

    let msg = group.encrypt_application_message(b"hi", vec![]).unwrap();
    // must neither panic nor be rejected: epoch 1 is inside the window [max(0, 1-5), 1]
    let res = observer.process_incoming_message(msg);
    assert!(res.is_ok(), "ciphertext of the current epoch rejected: {:?}", res.err());
}
