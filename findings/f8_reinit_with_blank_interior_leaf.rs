// Witness for finding F8 (C17): check_that_subgroup_is_a_subset compares node-vector LENGTHS for a
// re-init; an old group whose tree has a blank interior leaf cannot be re-initialised with exactly
// its members (NotASubgroup).  Drop into mls-rs/tests/ and run
//   cargo test -p mls-rs --test f8_reinit_with_blank_interior_leaf --offline
use mls_rs::{
    client_builder::MlsConfig,
    identity::{basic::{BasicCredential, BasicIdentityProvider}, SigningIdentity},
    CipherSuite, CipherSuiteProvider, Client, CryptoProvider, ProtocolVersion,
};

const CS: CipherSuite = CipherSuite::CURVE25519_AES128;

fn client(name: &str) -> Client<impl MlsConfig> {
    let cp = mls_rs_crypto_openssl::OpensslCryptoProvider::default();
    let cs = cp.cipher_suite_provider(CS).unwrap();
    let (sk, pk) = cs.signature_key_generate().unwrap();
    let id = SigningIdentity::new(BasicCredential::new(name.as_bytes().to_vec()).into_credential(), pk);
    Client::builder().identity_provider(BasicIdentityProvider).crypto_provider(cp).signing_identity(id, sk, CS).build()
}

#[test]
fn reinit_succeeds_with_the_same_members_whatever_the_tree_shape() {
    let alice = client("alice");
    let bob = client("bob");
    let carol = client("carol");

    // leaves: alice 0, bob 1, carol 2
    let mut ga = alice.group_builder().unwrap().build().unwrap();
    let kps: Vec<_> = [&bob, &carol].iter()
        .map(|c| c.generate_key_package_message(Default::default(), Default::default(), None).unwrap()).collect();
    let mut b = ga.commit_builder();
    for kp in kps { b = b.add_member(kp).unwrap(); }
    let c = b.build().unwrap();
    ga.apply_pending_commit().unwrap();
    let (mut gc, _) = carol.join_group(None, &c.welcome_messages[0], None).unwrap();

    // bob is removed: the tree now has a blank interior leaf (alice, _, carol)
    let c = ga.commit_builder().remove_member(1).unwrap().build().unwrap();
    ga.apply_pending_commit().unwrap();
    gc.process_incoming_message(c.commit_message).unwrap();

    // re-init with unchanged parameters
    let c = ga.commit_builder().reinit(None, ProtocolVersion::MLS_10, CS, Default::default()).unwrap().build().unwrap();
    ga.apply_pending_commit().unwrap();
    gc.process_incoming_message(c.commit_message).unwrap();

    let ra = ga.get_reinit_client(None, None).unwrap();
    let rc = gc.get_reinit_client(None, None).unwrap();
    let carol_kp = rc.generate_key_package(None).unwrap();

    // the successor has exactly the old members {alice, carol}: it must be creatable and joinable
    let created = ra.commit(vec![carol_kp], Default::default(), None);
    assert!(created.is_ok(), "successor with identical membership refused: {:?}", created.err());
    let (_new_a, welcomes) = created.unwrap();
    let joined = rc.join(&welcomes[0], None, None);
    assert!(joined.is_ok(), "joining the successor refused: {:?}", joined.err());
}
