// Verification-only module (cfg(kani)) for C03: PrivateMessageContent (RFC 9420 section
// 6.3.1) is decoded by a hand-written, content-type dependent decoder that must reject any
// non-zero padding byte, and must never panic on attacker-controlled plaintext.
//
//   struct {
//       select (PrivateMessage.content_type) {
//           case application: opaque application_data<V>;
//           case proposal:    Proposal proposal;
//           case commit:      Commit commit;
//       };
//       FramedContentAuthData auth;      // opaque signature<V>; + confirmation_tag for commit
//       opaque padding[length_of_padding];   // "MUST be all zero", receiver MUST check
//   } PrivateMessageContent;
//
// Contracts are stated at the harness.  Byte VALUES are fully symbolic, the buffer LENGTH is
// bounded (`_bounded_<n>`).
use super::*;
use crate::group::{MessageSignature, RemoveProposal};
use alloc::boxed::Box;
use alloc::vec::Vec;
use core::mem::ManuallyDrop;

// zeroize::optimization_barrier is inline asm (unsupported by Kani); ApplicationData is
// ZeroizeOnDrop.  Same signature as zeroize 1.9.0 `pub fn optimization_barrier<T: ?Sized>(val: &T)`.
fn noop_barrier<T: ?Sized>(_val: &T) {}

/// Independent oracle for the Application layout over a buffer shorter than 64 bytes
/// (RFC 9420 section 2.1.2 variable-size vector headers: a 1-byte header 0b00xxxxxx announces
/// a length < 64; any other header either announces >= 64 bytes - more than the buffer holds -
/// or is not the minimum-size encoding, or is the invalid prefix 0b11: rejected in all cases).
/// Returns Some((data_len, sig_len)) iff the buffer is
///     data_len || data || sig_len || sig || 0*
fn oracle_application(input: &[u8]) -> Option<(usize, usize)> {
    let len = input.len();
    if len == 0 {
        return None;
    }
    let h1 = input[0];
    if h1 >> 6 != 0 {
        return None;
    }
    let l1 = h1 as usize;
    let p2 = 1 + l1; // position of the signature header
    if p2 >= len {
        return None;
    }
    let h2 = input[p2];
    if h2 >> 6 != 0 {
        return None;
    }
    let l2 = h2 as usize;
    let end = p2 + 1 + l2;
    if end > len {
        return None;
    }
    let mut i = end;
    while i < len {
        if input[i] != 0 {
            return None; // non-zero padding
        }
        i += 1;
    }
    Some((l1, l2))
}

fn application_body<const N: usize, const ENC: bool>() {
    let buf: [u8; N] = kani::any();
    let len: usize = kani::any();
    kani::assume(len <= N);
    let input = &buf[..len];

    let mut reader = input;
    // never a panic: every panic / overflow / out-of-bounds check inside the call is a
    // proof obligation of this harness
    // ManuallyDrop: the drop glue of Result<PrivateMessageContent, _> (all of Proposal / Commit /
    // LeafNode / UpdatePath, nested loops) is not part of the contract and makes symbolic
    // execution explode (the Ok/Err niche is not constant-folded by CBMC)
    let r = ManuallyDrop::new(PrivateMessageContent::mls_decode(&mut reader, ContentType::Application));
    let expect = oracle_application(input);

    match &*r {
        Err(_) => assert!(expect.is_none()),
        Ok(v) => {
            // accepted <==> well-formed and zero padded
            assert!(expect.is_some());
            let (l1, l2) = expect.unwrap();
            let consumed = 1 + l1 + 1 + l2;

            // true payload is reported: content and signature are the announced sub-slices
            match &v.content {
                Content::Application(data) => {
                    assert!(data.as_bytes().len() == l1);
                    let mut i = 0;
                    while i < l1 {
                        assert!(data.as_bytes()[i] == input[1 + i]);
                        i += 1;
                    }
                }
                _ => assert!(false),
            }
            assert!(v.auth.confirmation_tag.is_none());
            assert!(v.auth.signature.len() == l2);
            let mut i = 0;
            while i < l2 {
                assert!(v.auth.signature[i] == input[2 + l1 + i]);
                i += 1;
            }

            // the reader is left on the padding, and every padding byte is zero
            assert!(reader.len() == len - consumed);
            let mut i = consumed;
            while i < len {
                assert!(input[i] == 0);
                i += 1;
            }

            // re-encoding reproduces the consumed bytes (up to padding).  The assertions above
            // determine `v` completely (variant, data bytes, signature bytes, no confirmation
            // tag); the REAL mls_encode / mls_encoded_len are run on a structurally identical
            // value whose variant is a literal, because CBMC does not constant-fold the variant
            // of a value that came out of the niche-encoded Result and would otherwise execute
            // the encoders of Proposal and Commit (nested loops over LeafNode, UpdatePath, ...).
            if ENC {
                let v2 = ManuallyDrop::new(PrivateMessageContent {
                    content: Content::Application(ApplicationData::from(input[1..1 + l1].to_vec())),
                    auth: FramedContentAuthData {
                        signature: MessageSignature::from(input[2 + l1..consumed].to_vec()),
                        confirmation_tag: None,
                    },
                });
                assert!(v2.mls_encoded_len() == consumed);
                let mut out = Vec::with_capacity(N);
                v2.mls_encode(&mut out).unwrap();
                assert!(out.len() == consumed);
                let mut i = 0;
                while i < consumed {
                    assert!(out[i] == input[i]);
                    i += 1;
                }
            }

            kani::cover!(l1 == 3 && l2 == 2 && len == N); // data, signature and padding
            kani::cover!(l1 == 0 && l2 == 0 && len == 2); // minimal message, no padding
            kani::cover!(consumed == len && len == N); // no padding at full length
        }
    }
    kani::cover!(expect.is_none() && len == N);
}

/// PrivateMessageContent::mls_decode(reader, Application), buffer of <= 10 symbolic bytes:
///   never panics; Ok <==> the buffer is  len||data||len||signature||0*  (any non-zero padding
///   byte ==> Err); the reported data / signature are the announced sub-slices, no confirmation
///   tag; the reader is left on the first padding byte.
#[kani::proof]
#[kani::unwind(12)]
#[kani::stub(zeroize::optimization_barrier, noop_barrier)]
fn c03_private_content_application_bounded_10() {
    application_body::<10, false>();
}

/// Same, plus: mls_encode / mls_encoded_len of the decoded value reproduce exactly the consumed
/// bytes (everything up to the padding).  Smaller buffer: the symbolic-length Vec writes of the
/// encoder are expensive for CBMC.
#[kani::proof]
#[kani::unwind(10)]
#[kani::stub(zeroize::optimization_barrier, noop_barrier)]
fn c03_private_content_application_reencode_bounded_8() {
    application_body::<8, true>();
}

/// Focused restatement of the padding rule alone: take ANY accepted buffer and flip ANY
/// padding position to ANY non-zero value: the result is rejected.
#[kani::proof]
#[kani::unwind(12)]
#[kani::stub(zeroize::optimization_barrier, noop_barrier)]
fn c03_private_content_nonzero_padding_rejected_bounded_10() {
    const N: usize = 10;
    let mut buf: [u8; N] = kani::any();
    let len: usize = kani::any();
    kani::assume(len <= N);

    let consumed = {
        let mut reader = &buf[..len];
        let r = ManuallyDrop::new(PrivateMessageContent::mls_decode(&mut reader, ContentType::Application));
        match &*r {
            // the reader is left on the first padding byte (c03_private_content_application_*)
            Ok(_) => len - reader.len(),
            Err(_) => {
                kani::assume(false);
                0
            }
        }
    };
    let pos: usize = kani::any();
    let val: u8 = kani::any();
    kani::assume(pos >= consumed && pos < len && val != 0);
    buf[pos] = val;
    let mut reader = &buf[..len];
    let r = ManuallyDrop::new(PrivateMessageContent::mls_decode(&mut reader, ContentType::Application));
    assert!(matches!(&*r, Err(mls_rs_codec::Error::Custom(5))));
    kani::cover!(pos == len - 1 && pos > consumed);
    kani::cover!(pos == consumed);
}

/// impl From<&Content> for ContentType / Content::content_type: the obvious mapping, and the
/// wire values of RFC 9420 section 6 (application = 1, proposal = 2, commit = 3).
#[kani::proof]
#[kani::unwind(4)]
#[kani::stub(zeroize::optimization_barrier, noop_barrier)]
fn c03_content_type_mapping() {
    let b: [u8; 2] = kani::any();
    let app = ManuallyDrop::new(Content::Application(ApplicationData::from(b.to_vec())));
    assert!(app.content_type() == ContentType::Application);
    assert!(ContentType::from(&*app) == ContentType::Application);

    let idx: u32 = kani::any();
    kani::assume(idx <= 0x00FF_FFFF);
    let prop = ManuallyDrop::new(Content::Proposal(Box::new(Proposal::Remove(RemoveProposal {
        to_remove: LeafIndex::unchecked(idx),
    }))));
    assert!(prop.content_type() == ContentType::Proposal);
    assert!(ContentType::from(&*prop) == ContentType::Proposal);

    let commit = ManuallyDrop::new(Content::Commit(Box::new(Commit { proposals: Vec::new(), path: None })));
    assert!(commit.content_type() == ContentType::Commit);
    assert!(ContentType::from(&*commit) == ContentType::Commit);

    assert!(ContentType::Application as u8 == 1);
    assert!(ContentType::Proposal as u8 == 2);
    assert!(ContentType::Commit as u8 == 3);
}

/// FramedContentAuthData::mls_decode: a confirmation tag is parsed for, and only for, commits
/// (RFC 9420 section 6.1), so that the padding check of PrivateMessageContent starts at the
/// right offset for every content type.
#[kani::proof]
#[kani::unwind(10)]
fn c03_auth_data_by_content_type_bounded_6() {
    const N: usize = 6;
    let buf: [u8; N] = kani::any();
    let len: usize = kani::any();
    kani::assume(len <= N);
    let input = &buf[..len];
    let k: u8 = kani::any();
    kani::assume(k < 3);
    let ct = match k {
        0 => ContentType::Application,
        1 => ContentType::Proposal,
        _ => ContentType::Commit,
    };
    let mut reader = input;
    if let Ok(a) = FramedContentAuthData::mls_decode(&mut reader, ct) {
        let consumed = len - reader.len();
        assert!(a.confirmation_tag.is_some() == (k == 2));
        assert!(a.mls_encoded_len() == consumed);
        let mut out = Vec::new();
        a.mls_encode(&mut out).unwrap();
        assert!(out.len() == consumed);
        let mut i = 0;
        while i < consumed {
            assert!(out[i] == input[i]);
            i += 1;
        }
        kani::cover!(k == 2 && consumed == N);
        kani::cover!(k == 0 && consumed == N);
    }
}
