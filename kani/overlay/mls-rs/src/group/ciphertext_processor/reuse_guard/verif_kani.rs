// Verification-only module (cfg(kani)) for C05: the nonce reuse guard of RFC 9420
// section 6.3.1 ("the first four bytes of the nonce are XORed with the reuse_guard").
//
// Contracts are stated at the harness (assume the precondition, call the REAL function,
// assert the postcondition).  Guard and nonce BYTES are fully symbolic; the nonce LENGTH
// ranges over 0..=16, which covers every AEAD nonce size of every cipher suite the library
// supports (Nn = 12 for AES-GCM and ChaCha20-Poly1305); the harnesses are complete for
// lengths 0..=16.
use super::*;
use alloc::vec::Vec;
use mls_rs_core::crypto::{
    CipherSuite, HpkeCiphertext, HpkeContextR, HpkeContextS, HpkePublicKey, HpkeSecretKey,
    SignaturePublicKey, SignatureSecretKey,
};
use mls_rs_core::crypto::HpkePsk;
use zeroize::Zeroizing;

const MAX_NONCE: usize = 16;

fn any_nonce() -> ([u8; MAX_NONCE], usize) {
    let buf: [u8; MAX_NONCE] = kani::any();
    let len: usize = kani::any();
    kani::assume(len <= MAX_NONCE);
    (buf, len)
}

/// ReuseGuard::apply(guard, nonce):
///   ensures |out| == |nonce|
///           out[i] == nonce[i] ^ guard[i]   for i < min(4, |nonce|)
///           out[i] == nonce[i]              for 4 <= i < |nonce|
#[kani::proof]
#[kani::unwind(18)]
fn c05_reuse_guard_apply() {
    let g: [u8; REUSE_GUARD_SIZE] = kani::any();
    let (buf, len) = any_nonce();
    let nonce = &buf[..len];
    let guard = ReuseGuard::from(g);

    let out = guard.apply(nonce);

    assert!(out.len() == len);
    let mut i = 0;
    while i < len {
        if i < 4 {
            assert!(out[i] == nonce[i] ^ g[i]);
        } else {
            assert!(out[i] == nonce[i]);
        }
        i += 1;
    }
    // the guard itself is not modified
    let back: [u8; REUSE_GUARD_SIZE] = guard.into();
    assert!(back == g);

    // non-vacuity: every interesting shape is reachable
    kani::cover!(len == 0);
    kani::cover!(len == 3);
    kani::cover!(len == 12 && out[0] != nonce[0] && out[3] != nonce[3]);
    kani::cover!(len == 16 && out[15] == nonce[15]);
}

/// Involution: apply(guard, apply(guard, nonce)) == nonce  (the receiver recovers the
/// key-schedule nonce from the transmitted guard; two different guards on the same nonce
/// give two different AEAD nonces as soon as the nonce has at least 4 bytes).
#[kani::proof]
#[kani::unwind(18)]
fn c05_reuse_guard_involution() {
    let g: [u8; REUSE_GUARD_SIZE] = kani::any();
    let (buf, len) = any_nonce();
    let nonce = &buf[..len];
    let guard = ReuseGuard::from(g);

    let once = guard.apply(nonce);
    let twice = guard.apply(&once);

    assert!(twice.len() == len);
    let mut i = 0;
    while i < len {
        assert!(twice[i] == nonce[i]);
        i += 1;
    }
    kani::cover!(len == 12 && once[0] != nonce[0]);
}

/// Distinct guards separate nonces: for |nonce| >= 4, apply(g1, n) == apply(g2, n) iff g1 == g2.
#[kani::proof]
#[kani::unwind(18)]
fn c05_reuse_guard_injective_in_guard() {
    let g1: [u8; REUSE_GUARD_SIZE] = kani::any();
    let g2: [u8; REUSE_GUARD_SIZE] = kani::any();
    let (buf, len) = any_nonce();
    kani::assume(len >= REUSE_GUARD_SIZE);
    let nonce = &buf[..len];

    let o1 = ReuseGuard::from(g1).apply(nonce);
    let o2 = ReuseGuard::from(g2).apply(nonce);

    let mut same = o1.len() == o2.len();
    let mut i = 0;
    while i < len {
        if o1[i] != o2[i] {
            same = false;
        }
        i += 1;
    }
    assert!(same == (g1 == g2));
    kani::cover!(same);
    kani::cover!(!same);
}

// ------------------------------------------------------------------ ReuseGuard::random
// A provider that only implements `random_bytes`; every other method is unreachable from
// `ReuseGuard::random` (the harness would fail on the `unreachable!` otherwise).
#[derive(Debug)]
struct RngErr;
impl mls_rs_core::error::IntoAnyError for RngErr {}

struct NoCtx;
impl HpkeContextS for NoCtx {
    type Error = RngErr;
    fn seal(&mut self, _aad: Option<&[u8]>, _data: &[u8]) -> Result<Vec<u8>, RngErr> {
        unreachable!()
    }
    fn export(&self, _c: &[u8], _len: usize) -> Result<Zeroizing<Vec<u8>>, RngErr> {
        unreachable!()
    }
}
impl HpkeContextR for NoCtx {
    type Error = RngErr;
    fn open(&mut self, _aad: Option<&[u8]>, _ct: &[u8]) -> Result<Zeroizing<Vec<u8>>, RngErr> {
        unreachable!()
    }
    fn export(&self, _c: &[u8], _len: usize) -> Result<Zeroizing<Vec<u8>>, RngErr> {
        unreachable!()
    }
}

struct RngOnly {
    fill: [u8; REUSE_GUARD_SIZE],
    fail: bool,
}

impl CipherSuiteProvider for RngOnly {
    type Error = RngErr;
    type HpkeContextS = NoCtx;
    type HpkeContextR = NoCtx;

    fn cipher_suite(&self) -> CipherSuite {
        unreachable!()
    }
    fn hash(&self, _data: &[u8]) -> Result<Vec<u8>, RngErr> {
        unreachable!()
    }
    fn mac(&self, _key: &[u8], _data: &[u8]) -> Result<Vec<u8>, RngErr> {
        unreachable!()
    }
    fn aead_seal(
        &self,
        _key: &[u8],
        _data: &[u8],
        _aad: Option<&[u8]>,
        _nonce: &[u8],
    ) -> Result<Vec<u8>, RngErr> {
        unreachable!()
    }
    fn aead_open(
        &self,
        _key: &[u8],
        _ciphertext: &[u8],
        _aad: Option<&[u8]>,
        _nonce: &[u8],
    ) -> Result<Zeroizing<Vec<u8>>, RngErr> {
        unreachable!()
    }
    fn aead_key_size(&self) -> usize {
        unreachable!()
    }
    fn aead_nonce_size(&self) -> usize {
        unreachable!()
    }
    fn kdf_extract(&self, _salt: &[u8], _ikm: &[u8]) -> Result<Zeroizing<Vec<u8>>, RngErr> {
        unreachable!()
    }
    fn kdf_expand(&self, _prk: &[u8], _info: &[u8], _len: usize) -> Result<Zeroizing<Vec<u8>>, RngErr> {
        unreachable!()
    }
    fn kdf_extract_size(&self) -> usize {
        unreachable!()
    }
    fn hpke_seal(
        &self,
        _remote_key: &HpkePublicKey,
        _info: &[u8],
        _aad: Option<&[u8]>,
        _pt: &[u8],
    ) -> Result<HpkeCiphertext, RngErr> {
        unreachable!()
    }
    fn hpke_seal_psk(
        &self,
        _remote_key: &HpkePublicKey,
        _info: &[u8],
        _aad: Option<&[u8]>,
        _pt: &[u8],
        _psk: HpkePsk<'_>,
    ) -> Result<HpkeCiphertext, RngErr> {
        unreachable!()
    }
    fn hpke_open(
        &self,
        _ciphertext: &HpkeCiphertext,
        _local_secret: &HpkeSecretKey,
        _local_public: &HpkePublicKey,
        _info: &[u8],
        _aad: Option<&[u8]>,
    ) -> Result<Zeroizing<Vec<u8>>, RngErr> {
        unreachable!()
    }
    fn hpke_open_psk(
        &self,
        _ciphertext: &HpkeCiphertext,
        _local_secret: &HpkeSecretKey,
        _local_public: &HpkePublicKey,
        _info: &[u8],
        _aad: Option<&[u8]>,
        _psk: HpkePsk<'_>,
    ) -> Result<Zeroizing<Vec<u8>>, RngErr> {
        unreachable!()
    }
    fn hpke_setup_s(
        &self,
        _remote_key: &HpkePublicKey,
        _info: &[u8],
    ) -> Result<(Vec<u8>, NoCtx), RngErr> {
        unreachable!()
    }
    fn hpke_setup_r(
        &self,
        _kem_output: &[u8],
        _local_secret: &HpkeSecretKey,
        _local_public: &HpkePublicKey,
        _info: &[u8],
    ) -> Result<NoCtx, RngErr> {
        unreachable!()
    }
    fn kem_derive(&self, _ikm: &[u8]) -> Result<(HpkeSecretKey, HpkePublicKey), RngErr> {
        unreachable!()
    }
    fn kem_generate(&self) -> Result<(HpkeSecretKey, HpkePublicKey), RngErr> {
        unreachable!()
    }
    fn kem_public_key_validate(&self, _key: &HpkePublicKey) -> Result<(), RngErr> {
        unreachable!()
    }
    fn random_bytes(&self, out: &mut [u8]) -> Result<(), RngErr> {
        // the guard asks for exactly REUSE_GUARD_SIZE bytes
        assert!(out.len() == REUSE_GUARD_SIZE);
        if self.fail {
            return Err(RngErr);
        }
        out.copy_from_slice(&self.fill);
        Ok(())
    }
    fn signature_key_generate(&self) -> Result<(SignatureSecretKey, SignaturePublicKey), RngErr> {
        unreachable!()
    }
    fn signature_key_derive_public(&self, _k: &SignatureSecretKey) -> Result<SignaturePublicKey, RngErr> {
        unreachable!()
    }
    fn sign(&self, _k: &SignatureSecretKey, _data: &[u8]) -> Result<Vec<u8>, RngErr> {
        unreachable!()
    }
    fn verify(&self, _k: &SignaturePublicKey, _sig: &[u8], _data: &[u8]) -> Result<(), RngErr> {
        unreachable!()
    }
}

/// ReuseGuard::random(provider):
///   ensures  provider.random_bytes fails  ==> Err (no guard is fabricated)
///            otherwise all 4 guard bytes are exactly the 4 bytes the provider's RNG
///            produced (no byte of the guard is constant), and the RNG is asked once for
///            exactly 4 bytes and nothing else of the provider is touched.
#[kani::proof]
#[kani::unwind(6)]
fn c05_reuse_guard_random() {
    let p = RngOnly { fill: kani::any(), fail: kani::any() };
    match ReuseGuard::random(&p) {
        Ok(g) => {
            assert!(!p.fail);
            let bytes: [u8; REUSE_GUARD_SIZE] = g.into();
            assert!(bytes == p.fill);
        }
        Err(_) => assert!(p.fail),
    }
    kani::cover!(p.fail);
    kani::cover!(!p.fail && p.fill[0] != 0 && p.fill[3] != 0);
}
