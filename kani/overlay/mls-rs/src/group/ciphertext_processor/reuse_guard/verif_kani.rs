// Verification-only module (cfg(kani)); harnesses are added here.
