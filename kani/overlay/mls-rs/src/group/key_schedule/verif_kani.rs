// Verification-only module (cfg(kani)); copied into the scratch copy of /repo by
// /verif/engine/kani_run.py.
//
// C13 (key-schedule part) by a GHOST CRYPTO PROVIDER: `GhostProvider` implements
// `CipherSuiteProvider`, records every call (operation, byte-exact arguments, requested
// length) in a trace and answers call number k (k = 0, 1, ...) with the constant vector
// [k+1; n].  The real functions of key_schedule.rs are run on symbolic inputs and the
// trace is compared with the RFC 9420 section 8 formulas.  The expected `info` / `salt` /
// `ikm` bytes are produced by the hand-written oracle below (`rfc_*`), which does not use
// mls-rs-codec.  Because the inputs are universally quantified, "argument == [k+1; n]"
// can only hold on every path if the code really passed the output of call k.
//
// SHARING: `mod verif_kani` is a private module of its parent file, so its items cannot be
// named from the harness modules of other files.  The shared support code is therefore
// wrapped in the exported macro `c13_ghost_support!`, defined once here and instantiated
// by every harness module that needs it (`crate::c13_ghost_support!();`).
use super::*;

#[macro_export]
macro_rules! c13_ghost_support {
    () => {
        /// KDF.Nh (kdf_extract_size), AEAD.Nk, AEAD.Nn and the hash / MAC output length of the
        /// ghost suite.  Pairwise different so that a wrong size function shows up in the trace
        /// (in the requested length and in KDFLabel.length).
        pub(crate) const NH: usize = 2;
        pub(crate) const NK: usize = 3;
        pub(crate) const NN: usize = 1;
        pub(crate) const HASH_LEN: usize = 4;
        pub(crate) const MAC_LEN: usize = 5;

        #[derive(Clone, Copy, PartialEq, Eq, Debug)]
        pub(crate) enum Op {
            Extract, // a = salt, b = ikm
            Expand,  // a = prk,  b = info, len = requested length
            Hash,    // b = data
            Mac,     // a = key,  b = data
        }

        /// capacity of a recorded key-like argument (salt / prk / MAC key) and of a recorded
        /// data-like argument (ikm / info / hashed or MACed data); longer arguments fail an
        /// assertion, so nothing is silently truncated
        pub(crate) const A_CAP: usize = 16;
        pub(crate) const B_CAP: usize = 80;
        pub(crate) const MAX_CALLS: usize = 16;

        /// One recorded provider call.  Arguments are stored zero padded in fixed arrays
        /// (no heap, no drop glue).
        #[derive(Clone, Copy)]
        pub(crate) struct Call {
            pub op: Op,
            pub a: [u8; A_CAP],
            pub a_len: usize,
            pub b: [u8; B_CAP],
            pub b_len: usize,
            pub len: usize,
        }

        pub(crate) fn pad_a(x: &[u8]) -> [u8; A_CAP] {
            assert!(x.len() <= A_CAP);
            let mut o = [0u8; A_CAP];
            o[..x.len()].copy_from_slice(x);
            o
        }

        pub(crate) fn pad_b(x: &[u8]) -> [u8; B_CAP] {
            assert!(x.len() <= B_CAP);
            let mut o = [0u8; B_CAP];
            o[..x.len()].copy_from_slice(x);
            o
        }

        /// x (zero padded, length n) == y; the loop bound is the capacity so that it stays a
        /// concrete bound even when a length is symbolic
        pub(crate) fn eq_padded(x: &[u8], n: usize, y: &[u8]) -> bool {
            if n != y.len() {
                return false;
            }
            let mut k = 0;
            while k < x.len() && k < n {
                if x[k] != y[k] {
                    return false;
                }
                k += 1;
            }
            true
        }

        /// equality of two byte strings of length <= B_CAP
        pub(crate) fn bytes_eq(x: &[u8], y: &[u8]) -> bool {
            assert!(x.len() <= B_CAP);
            eq_padded(&pad_b(x), x.len(), y)
        }

        #[derive(Debug)]
        pub(crate) struct GhostError;

        impl ::core::fmt::Display for GhostError {
            fn fmt(&self, f: &mut ::core::fmt::Formatter<'_>) -> ::core::fmt::Result {
                f.write_str("ghost")
            }
        }

        impl ::std::error::Error for GhostError {}

        impl ::mls_rs_core::error::IntoAnyError for GhostError {
            // avoids format!() in the default into_any_error
            fn into_dyn_error(
                self,
            ) -> Result<::std::boxed::Box<dyn ::std::error::Error + Send + Sync>, Self> {
                Ok(::std::boxed::Box::new(self))
            }
        }

        pub(crate) struct GhostHpke;

        impl ::mls_rs_core::crypto::HpkeContextS for GhostHpke {
            type Error = GhostError;
            fn seal(
                &mut self,
                _aad: Option<&[u8]>,
                _data: &[u8],
            ) -> Result<::alloc::vec::Vec<u8>, GhostError> {
                unimplemented!()
            }
            fn export(
                &self,
                _c: &[u8],
                _len: usize,
            ) -> Result<::zeroize::Zeroizing<::alloc::vec::Vec<u8>>, GhostError> {
                unimplemented!()
            }
        }

        impl ::mls_rs_core::crypto::HpkeContextR for GhostHpke {
            type Error = GhostError;
            fn open(
                &mut self,
                _aad: Option<&[u8]>,
                _ct: &[u8],
            ) -> Result<::zeroize::Zeroizing<::alloc::vec::Vec<u8>>, GhostError> {
                unimplemented!()
            }
            fn export(
                &self,
                _c: &[u8],
                _len: usize,
            ) -> Result<::zeroize::Zeroizing<::alloc::vec::Vec<u8>>, GhostError> {
                unimplemented!()
            }
        }

        pub(crate) struct GhostProvider {
            pub trace: ::core::cell::RefCell<[Call; MAX_CALLS]>,
            pub n: ::core::cell::Cell<usize>,
            /// index of the call that fails (the failing call is still recorded)
            pub fail_at: Option<usize>,
            /// call k answers with tag tag_base + k + 1
            pub tag_base: u8,
        }

        // the harnesses are single threaded; the trait demands Send + Sync
        unsafe impl Sync for GhostProvider {}

        impl GhostProvider {
            pub(crate) fn new() -> Self {
                let empty = Call {
                    op: Op::Hash,
                    a: [0; A_CAP],
                    a_len: 0,
                    b: [0; B_CAP],
                    b_len: 0,
                    len: 0,
                };
                GhostProvider {
                    trace: ::core::cell::RefCell::new([empty; MAX_CALLS]),
                    n: ::core::cell::Cell::new(0),
                    fail_at: None,
                    tag_base: 0,
                }
            }

            pub(crate) fn failing_at(i: usize) -> Self {
                let mut p = Self::new();
                p.fail_at = Some(i);
                p
            }

            fn record(&self, op: Op, a: &[u8], b: &[u8], len: usize) -> Result<u8, GhostError> {
                let idx = self.n.get();
                assert!(idx < MAX_CALLS);
                self.trace.borrow_mut()[idx] =
                    Call { op, a: pad_a(a), a_len: a.len(), b: pad_b(b), b_len: b.len(), len };
                self.n.set(idx + 1);
                if self.fail_at == Some(idx) {
                    return Err(GhostError);
                }
                Ok(self.tag_base + idx as u8 + 1)
            }

            pub(crate) fn calls(&self) -> usize {
                self.n.get()
            }

            /// call `i` is exactly `op(a, b)` with requested length `len`
            pub(crate) fn is(&self, i: usize, op: Op, a: &[u8], b: &[u8], len: usize) -> bool {
                if i >= self.n.get() {
                    return false;
                }
                let t = self.trace.borrow();
                let c = &t[i];
                c.op == op
                    && c.len == len
                    && eq_padded(&c.a, c.a_len, a)
                    && eq_padded(&c.b, c.b_len, b)
            }

            /// the output tag of THE call `op(a, b, len)`; None if there is none or more than one
            pub(crate) fn find(&self, op: Op, a: &[u8], b: &[u8], len: usize) -> Option<u8> {
                let n = self.calls();
                let mut found = None;
                let mut i = 0;
                while i < n {
                    if self.is(i, op, a, b, len) {
                        if found.is_some() {
                            return None;
                        }
                        found = Some(self.tag_base + i as u8 + 1);
                    }
                    i += 1;
                }
                found
            }

            /// both providers saw the same sequence of calls
            pub(crate) fn same_trace(&self, q: &GhostProvider) -> bool {
                let n = self.calls();
                if q.calls() != n {
                    return false;
                }
                let mut i = 0;
                while i < n {
                    let d = q.trace.borrow()[i];
                    if !self.is(i, d.op, &d.a[..d.a_len], &d.b[..d.b_len], d.len) {
                        return false;
                    }
                    i += 1;
                }
                true
            }
        }

        /// the answer of the call with tag `tag`: n bytes, all equal to `tag`
        pub(crate) fn is_out(v: &[u8], tag: u8, n: usize) -> bool {
            if v.len() != n {
                return false;
            }
            let mut i = 0;
            while i < n {
                if v[i] != tag {
                    return false;
                }
                i += 1;
            }
            true
        }

        pub(crate) fn out(tag: u8, n: usize) -> ::alloc::vec::Vec<u8> {
            ::alloc::vec![tag; n]
        }

        impl ::mls_rs_core::crypto::CipherSuiteProvider for GhostProvider {
            type Error = GhostError;
            type HpkeContextS = GhostHpke;
            type HpkeContextR = GhostHpke;

            fn cipher_suite(&self) -> ::mls_rs_core::crypto::CipherSuite {
                ::mls_rs_core::crypto::CipherSuite::CURVE25519_AES128
            }

            fn hash(&self, data: &[u8]) -> Result<::alloc::vec::Vec<u8>, GhostError> {
                let tag = self.record(Op::Hash, &[], data, 0)?;
                Ok(::alloc::vec![tag; HASH_LEN])
            }

            fn mac(&self, key: &[u8], data: &[u8]) -> Result<::alloc::vec::Vec<u8>, GhostError> {
                let tag = self.record(Op::Mac, key, data, 0)?;
                Ok(::alloc::vec![tag; MAC_LEN])
            }

            fn aead_seal(
                &self,
                _key: &[u8],
                _data: &[u8],
                _aad: Option<&[u8]>,
                _nonce: &[u8],
            ) -> Result<::alloc::vec::Vec<u8>, GhostError> {
                unimplemented!()
            }

            fn aead_open(
                &self,
                _key: &[u8],
                _ciphertext: &[u8],
                _aad: Option<&[u8]>,
                _nonce: &[u8],
            ) -> Result<::zeroize::Zeroizing<::alloc::vec::Vec<u8>>, GhostError> {
                unimplemented!()
            }

            fn aead_key_size(&self) -> usize {
                NK
            }

            fn aead_nonce_size(&self) -> usize {
                NN
            }

            fn kdf_extract(
                &self,
                salt: &[u8],
                ikm: &[u8],
            ) -> Result<::zeroize::Zeroizing<::alloc::vec::Vec<u8>>, GhostError> {
                let tag = self.record(Op::Extract, salt, ikm, 0)?;
                Ok(::zeroize::Zeroizing::new(::alloc::vec![tag; NH]))
            }

            fn kdf_expand(
                &self,
                prk: &[u8],
                info: &[u8],
                len: usize,
            ) -> Result<::zeroize::Zeroizing<::alloc::vec::Vec<u8>>, GhostError> {
                let tag = self.record(Op::Expand, prk, info, len)?;
                // The answer is an opaque token for the code under test: always NH bytes,
                // whatever length was requested (the requested length is in the trace and is
                // checked there).  An answer of symbolic size would make every later pointer
                // write a case split for CBMC (the "every Length" harnesses ran out of memory).
                Ok(::zeroize::Zeroizing::new(::alloc::vec![tag; NH]))
            }

            fn kdf_extract_size(&self) -> usize {
                NH
            }

            fn hpke_seal(
                &self,
                _remote_key: &::mls_rs_core::crypto::HpkePublicKey,
                _info: &[u8],
                _aad: Option<&[u8]>,
                _pt: &[u8],
            ) -> Result<::mls_rs_core::crypto::HpkeCiphertext, GhostError> {
                unimplemented!()
            }

            fn hpke_seal_psk(
                &self,
                _remote_key: &::mls_rs_core::crypto::HpkePublicKey,
                _info: &[u8],
                _aad: Option<&[u8]>,
                _pt: &[u8],
                _psk: ::mls_rs_core::crypto::HpkePsk<'_>,
            ) -> Result<::mls_rs_core::crypto::HpkeCiphertext, GhostError> {
                unimplemented!()
            }

            fn hpke_open(
                &self,
                _ciphertext: &::mls_rs_core::crypto::HpkeCiphertext,
                _local_secret: &::mls_rs_core::crypto::HpkeSecretKey,
                _local_public: &::mls_rs_core::crypto::HpkePublicKey,
                _info: &[u8],
                _aad: Option<&[u8]>,
            ) -> Result<::zeroize::Zeroizing<::alloc::vec::Vec<u8>>, GhostError> {
                unimplemented!()
            }

            fn hpke_open_psk(
                &self,
                _ciphertext: &::mls_rs_core::crypto::HpkeCiphertext,
                _local_secret: &::mls_rs_core::crypto::HpkeSecretKey,
                _local_public: &::mls_rs_core::crypto::HpkePublicKey,
                _info: &[u8],
                _aad: Option<&[u8]>,
                _psk: ::mls_rs_core::crypto::HpkePsk<'_>,
            ) -> Result<::zeroize::Zeroizing<::alloc::vec::Vec<u8>>, GhostError> {
                unimplemented!()
            }

            fn hpke_setup_s(
                &self,
                _remote_key: &::mls_rs_core::crypto::HpkePublicKey,
                _info: &[u8],
            ) -> Result<(::alloc::vec::Vec<u8>, GhostHpke), GhostError> {
                unimplemented!()
            }

            fn hpke_setup_r(
                &self,
                _kem_output: &[u8],
                _local_secret: &::mls_rs_core::crypto::HpkeSecretKey,
                _local_public: &::mls_rs_core::crypto::HpkePublicKey,
                _info: &[u8],
            ) -> Result<GhostHpke, GhostError> {
                unimplemented!()
            }

            fn kem_derive(
                &self,
                _ikm: &[u8],
            ) -> Result<
                (::mls_rs_core::crypto::HpkeSecretKey, ::mls_rs_core::crypto::HpkePublicKey),
                GhostError,
            > {
                unimplemented!()
            }

            fn kem_generate(
                &self,
            ) -> Result<
                (::mls_rs_core::crypto::HpkeSecretKey, ::mls_rs_core::crypto::HpkePublicKey),
                GhostError,
            > {
                unimplemented!()
            }

            fn kem_public_key_validate(
                &self,
                _key: &::mls_rs_core::crypto::HpkePublicKey,
            ) -> Result<(), GhostError> {
                unimplemented!()
            }

            fn random_bytes(&self, _out: &mut [u8]) -> Result<(), GhostError> {
                unimplemented!()
            }

            fn signature_key_generate(
                &self,
            ) -> Result<
                (
                    ::mls_rs_core::crypto::SignatureSecretKey,
                    ::mls_rs_core::crypto::SignaturePublicKey,
                ),
                GhostError,
            > {
                unimplemented!()
            }

            fn signature_key_derive_public(
                &self,
                _secret_key: &::mls_rs_core::crypto::SignatureSecretKey,
            ) -> Result<::mls_rs_core::crypto::SignaturePublicKey, GhostError> {
                unimplemented!()
            }

            fn sign(
                &self,
                _secret_key: &::mls_rs_core::crypto::SignatureSecretKey,
                _data: &[u8],
            ) -> Result<::alloc::vec::Vec<u8>, GhostError> {
                unimplemented!()
            }

            fn verify(
                &self,
                _public_key: &::mls_rs_core::crypto::SignaturePublicKey,
                _signature: &[u8],
                _data: &[u8],
            ) -> Result<(), GhostError> {
                unimplemented!()
            }
        }

        // ---------------------------------------------------------------- RFC 9420 oracle
        // Written from the RFC text with plain byte arithmetic; no mls-rs-codec.

        /// RFC 9420 section 2.1.2: length header of a `<V>` vector (RFC 9000 section 16
        /// variable-length integer, minimal encoding, 1 / 2 / 4 byte forms).
        pub(crate) fn rfc_varint(o: &mut ::alloc::vec::Vec<u8>, n: usize) {
            if n < 64 {
                o.push(n as u8);
            } else if n < 16384 {
                o.push(0x40 | (n >> 8) as u8);
                o.push((n & 0xff) as u8);
            } else {
                o.push(0x80 | (n >> 24) as u8);
                o.push(((n >> 16) & 0xff) as u8);
                o.push(((n >> 8) & 0xff) as u8);
                o.push((n & 0xff) as u8);
            }
        }

        /// `opaque x<V>`
        pub(crate) fn rfc_opaque(o: &mut ::alloc::vec::Vec<u8>, x: &[u8]) {
            rfc_varint(o, x.len());
            o.extend_from_slice(x);
        }

        pub(crate) fn rfc_u16(o: &mut ::alloc::vec::Vec<u8>, x: u16) {
            o.push((x >> 8) as u8);
            o.push((x & 0xff) as u8);
        }

        pub(crate) fn rfc_u32(o: &mut ::alloc::vec::Vec<u8>, x: u32) {
            o.push((x >> 24) as u8);
            o.push(((x >> 16) & 0xff) as u8);
            o.push(((x >> 8) & 0xff) as u8);
            o.push((x & 0xff) as u8);
        }

        pub(crate) fn rfc_u64(o: &mut ::alloc::vec::Vec<u8>, x: u64) {
            rfc_u32(o, (x >> 32) as u32);
            rfc_u32(o, (x & 0xffff_ffff) as u32);
        }

        /// RFC 9420 section 8:
        /// struct { uint16 length; opaque label<V> = "MLS 1.0 " + Label; opaque context<V>; } KDFLabel;
        pub(crate) fn rfc_kdf_label(
            length: u16,
            label: &[u8],
            context: &[u8],
        ) -> ::alloc::vec::Vec<u8> {
            let mut o = ::alloc::vec::Vec::with_capacity(64);
            rfc_u16(&mut o, length);
            rfc_varint(&mut o, 8 + label.len());
            // "MLS 1.0 "
            o.extend_from_slice(&[0x4d, 0x4c, 0x53, 0x20, 0x31, 0x2e, 0x30, 0x20]);
            o.extend_from_slice(label);
            rfc_opaque(&mut o, context);
            o
        }

        // RFC 9420 section 8.1:
        //   struct { ProtocolVersion version = mls10; CipherSuite cipher_suite; opaque group_id<V>;
        //            uint64 epoch; opaque tree_hash<V>; opaque confirmed_transcript_hash<V>;
        //            Extension extensions<V>; } GroupContext;
        //   struct { ExtensionType extension_type; opaque extension_data<V>; } Extension;
        // (ProtocolVersion, CipherSuite, ExtensionType: uint16)
        pub(crate) fn rfc_group_context(c: &::mls_rs_core::group::GroupContext) -> ::alloc::vec::Vec<u8> {
            let mut o = ::alloc::vec::Vec::with_capacity(64);
            rfc_u16(&mut o, *c.protocol_version);
            rfc_u16(&mut o, *c.cipher_suite);
            rfc_opaque(&mut o, &c.group_id);
            rfc_u64(&mut o, c.epoch);
            rfc_opaque(&mut o, &c.tree_hash);
            rfc_opaque(&mut o, &c.confirmed_transcript_hash);
            let mut exts = ::alloc::vec::Vec::with_capacity(16);
            let mut i = 0;
            while i < c.extensions.len() {
                let e = &c.extensions[i];
                rfc_u16(&mut exts, e.extension_type.raw_value());
                rfc_opaque(&mut exts, &e.extension_data);
                i += 1;
            }
            rfc_opaque(&mut o, &exts);
            o
        }

        pub(crate) fn group_context(
            gid: &[u8],
            tree_hash: &[u8],
            cth: &[u8],
            ext_data: Option<&[u8]>,
        ) -> ::mls_rs_core::group::GroupContext {
            let mut extensions = ::mls_rs_core::extension::ExtensionList::new();
            if let Some(d) = ext_data {
                extensions.set(::mls_rs_core::extension::Extension::new(::mls_rs_core::extension::ExtensionType::from(kani::any::<u16>()), d.to_vec()));
            }
            ::mls_rs_core::group::GroupContext {
                protocol_version: ::mls_rs_core::protocol_version::ProtocolVersion::from(kani::any::<u16>()),
                cipher_suite: ::mls_rs_core::crypto::CipherSuite::from(kani::any::<u16>()),
                group_id: gid.to_vec(),
                epoch: kani::any(),
                tree_hash: tree_hash.to_vec(),
                confirmed_transcript_hash: ::mls_rs_core::group::ConfirmedTranscriptHash::from(cth.to_vec()),
                extensions,
            }
        }


        /// symbolic byte string of symbolic length 0..=N.  Only for arguments that the code
        /// under test passes through untouched: CBMC's cost explodes as soon as a buffer whose
        /// LAYOUT depends on a symbolic length is read back, so encoded inputs use
        /// `for_each_prefix` instead.
        pub(crate) fn any_bytes<const N: usize>() -> ::alloc::vec::Vec<u8> {
            let a: [u8; N] = kani::any();
            let n: usize = kani::any();
            kani::assume(n <= N);
            a[..n].to_vec()
        }

        /// Case split over the length of a symbolic byte string: `f` is run on the prefix of
        /// length n for a symbolic n in 0..=N, once per CONCRETE length, so that inside `f` every
        /// buffer has a concrete layout (the byte values stay symbolic).  Nothing after the
        /// call is executed (every case ends its path), so it must be the harness's last
        /// statement.
        pub(crate) fn for_each_prefix<const N: usize>(a: &[u8; N], mut f: impl FnMut(&[u8])) {
            let n: usize = kani::any();
            kani::assume(n <= N);
            let mut k = 0;
            while k <= N {
                if n == k {
                    f(&a[..k]);
                    // this case is finished: end the path here, so that the symbolic
                    // executor does not merge its heap into the remaining cases
                    kani::assume(false);
                }
                k += 1;
            }
        }

        /// the same case split over a symbolic index x in 0..n
        pub(crate) fn for_each_below(n: u32, mut f: impl FnMut(u32)) {
            let x: u32 = kani::any();
            kani::assume(x < n);
            let mut k = 0;
            while k < n {
                if x == k {
                    f(k);
                    kani::assume(false);
                }
                k += 1;
            }
        }

        /// the same case split over a symbolic bool
        pub(crate) fn for_each_bool(mut f: impl FnMut(bool)) {
            if kani::any() {
                f(false);
                kani::assume(false);
            } else {
                f(true);
                kani::assume(false);
            }
        }

        /// symbolic byte string of length exactly N
        pub(crate) fn any_exact<const N: usize>() -> ::alloc::vec::Vec<u8> {
            let a: [u8; N] = kani::any();
            a.to_vec()
        }

        /// replacement for std::hash::RandomState::new (which asks the OS for random SipHash
        /// keys, leaving every HashMap bucket index symbolic): fixed keys.  A HashMap's
        /// observable behaviour does not depend on the keys.
        pub(crate) fn fixed_random_state() -> ::std::hash::RandomState {
            unsafe { ::core::mem::transmute::<[u64; 2], ::std::hash::RandomState>([0u64; 2]) }
        }

        /// no-op replacement for zeroize::optimization_barrier (inline asm is unsupported)
        pub(crate) fn noop_barrier<T: ?Sized>(_val: &T) {}

        pub(crate) fn is_provider_error<T>(r: &Result<T, $crate::client::MlsError>) -> bool {
            matches!(r, Err($crate::client::MlsError::CryptoProviderError(_)))
        }
    };
}


crate::c13_ghost_support!();

use crate::group::epoch::{EpochSecrets, SenderDataSecret};
use crate::group::SecretTree;

// NOTE ON HARNESS SIZE.  Kani's time per harness grows faster than linearly with the amount
// of code executed (CBMC rebuilds a full trace for every batch of reachability checks), and
// every KDF call of the real code costs 5-10 s.  Case splits are therefore spread over
// several small harnesses (generated by macros) rather than done inside one.

// ============================================================ 1. ExpandWithLabel
// RFC 9420 section 8:  ExpandWithLabel(Secret, Label, Context, Length) =
//     KDF.Expand(Secret, KDFLabel, Length)
// Domain: every Length in 0..=65535 (the range of KDFLabel.length; `None` = KDF.Nh), every
// secret of length 0..=4, label of length 0..=4 (one harness per length) and context of
// length 0..=4, all bytes symbolic.
fn expand_with_label_case(secret: &[u8], label: &[u8], context: &[u8]) {
    let p = GhostProvider::new();
    let len: usize = kani::any();
    kani::assume(len <= 0xffff);
    let explicit: bool = kani::any();

    let r = kdf_expand_with_label(&p, secret, label, context, explicit.then_some(len));
    let want_len = if explicit { len } else { NH };

    assert!(r.is_ok());
    let o = r.unwrap();
    assert!(p.calls() == 1);
    assert!(p.is(
        0,
        Op::Expand,
        secret,
        &rfc_kdf_label(want_len as u16, label, context),
        want_len
    ));
    // the provider's answer is returned unchanged
    assert!(is_out(&o, 1, NH));
}

macro_rules! expand_with_label_harness {
    ($($name:ident: $ll:literal),* $(,)?) => { $(
        #[kani::proof]
        #[kani::stub(zeroize::optimization_barrier, noop_barrier)]
        #[kani::unwind(82)]
        fn $name() {
            let secret = any_bytes::<4>();
            let l: [u8; $ll] = kani::any();
            let c: [u8; 4] = kani::any();
            for_each_prefix(&c, |context| expand_with_label_case(&secret, &l, context));
        }
    )* };
}

expand_with_label_harness!(
    c13_kdf_expand_with_label_l1_bounded_4: 1,
    c13_kdf_expand_with_label_l2_bounded_4: 2,
    c13_kdf_expand_with_label_l3_bounded_4: 3,
    c13_kdf_expand_with_label_l4_bounded_4: 4,
);

// empty label: taken as the empty prefix of a real array (a `[u8; 0]` is a dangling pointer,
// on which CBMC ran out of memory)
#[kani::proof]
#[kani::stub(zeroize::optimization_barrier, noop_barrier)]
#[kani::unwind(82)]
fn c13_kdf_expand_with_label_l0_bounded_4() {
    let secret = any_bytes::<4>();
    let l: [u8; 1] = kani::any();
    let c: [u8; 4] = kani::any();
    for_each_prefix(&c, |context| expand_with_label_case(&secret, &l[..0], context));
}

// the two-byte form of the `<V>` length header: "MLS 1.0 " + 55 bytes = 63 (one byte),
// + 56 bytes = 64 (two bytes 0x40 0x40)
#[kani::proof]
#[kani::stub(zeroize::optimization_barrier, noop_barrier)]
#[kani::unwind(82)]
fn c13_kdf_expand_with_label_long_label() {
    let secret = any_exact::<NH>();
    let l: [u8; 56] = kani::any();
    let c: [u8; 1] = kani::any();
    for_each_bool(|longer| expand_with_label_case(&secret, if longer { &l[..56] } else { &l[..55] }, &c));
}

// a provider failure is reported as MlsError::CryptoProviderError, after exactly one call
#[kani::proof]
#[kani::stub(zeroize::optimization_barrier, noop_barrier)]
#[kani::unwind(82)]
fn c13_kdf_expand_with_label_provider_error() {
    let p = GhostProvider::failing_at(0);
    let secret = any_exact::<NH>();
    let label = any_exact::<3>();
    let context = any_exact::<3>();
    let len: usize = kani::any();
    kani::assume(len <= 0xffff);
    let explicit: bool = kani::any();
    let r = kdf_expand_with_label(&p, &secret, &label, &context, explicit.then_some(len));
    assert!(is_provider_error(&r));
    assert!(p.calls() == 1);
    core::mem::forget(r);
}

// ============================================================ 2. DeriveSecret
// DeriveSecret(Secret, Label) = ExpandWithLabel(Secret, Label, "", KDF.Nh)
#[kani::proof]
#[kani::stub(zeroize::optimization_barrier, noop_barrier)]
#[kani::unwind(82)]
fn c13_kdf_derive_secret_bounded_4() {
    let secret = any_bytes::<4>();
    let l: [u8; 4] = kani::any();
    for_each_prefix(&l, |label| {
        let p = GhostProvider::new();
        let r = kdf_derive_secret(&p, &secret, label);
        assert!(r.is_ok());
        let o = r.unwrap();
        assert!(p.calls() == 1);
        assert!(p.is(0, Op::Expand, &secret, &rfc_kdf_label(NH as u16, label, &[]), NH));
        assert!(is_out(&o, 1, NH));
    });
}

// ============================================================ 3. epoch secrets
// RFC 9420 section 8, table 4 and figure 22: every secret of the epoch is
// DeriveSecret(epoch_secret, label) for its own label; init_secret uses "init".
fn derived(p: &GhostProvider, secret: &[u8], label: &[u8]) -> u8 {
    let t = p.find(Op::Expand, secret, &rfc_kdf_label(NH as u16, label, &[]), NH);
    assert!(t.is_some());
    t.unwrap()
}

const TREE_SIZE: u32 = 4;

// SecretTree::new stores the encryption secret in a std HashMap; hashbrown's SIMD probing is
// beyond CBMC (a single insert does not finish symbolic execution in 10 minutes).  In this
// file SecretTree::new is therefore replaced by a recorder; what SecretTree::new and the rest
// of the secret tree do with the secret is checked in secret_tree/verif_kani.rs.
static mut TREE_NEW_CALLS: usize = 0;
static mut TREE_NEW_SECRET: [u8; NH] = [0; NH];
static mut TREE_NEW_LEAVES: u32 = 0;

fn recording_tree_new<T: crate::tree_kem::math::TreeIndex>(
    leaf_count: T,
    encryption_secret: Zeroizing<Vec<u8>>,
) -> SecretTree<T> {
    assert!(core::mem::size_of::<T>() == 4);
    assert!(encryption_secret.len() == NH);
    unsafe {
        *core::ptr::addr_of_mut!(TREE_NEW_CALLS) += 1;
        (*core::ptr::addr_of_mut!(TREE_NEW_SECRET)).copy_from_slice(&encryption_secret);
        *core::ptr::addr_of_mut!(TREE_NEW_LEAVES) = core::mem::transmute_copy::<T, u32>(&leaf_count);
    }
    core::mem::forget(encryption_secret);
    SecretTree::empty()
}

#[kani::proof]
#[kani::stub(zeroize::optimization_barrier, noop_barrier)]
#[kani::stub(std::hash::RandomState::new, fixed_random_state)]
#[kani::stub(crate::group::secret_tree::SecretTree::new, recording_tree_new)]
#[kani::unwind(82)]
fn c13_from_epoch_secret() {
    let p = GhostProvider::new();
    let epoch_secret = any_exact::<NH>();
    let r = KeySchedule::from_epoch_secret(&p, &epoch_secret, TREE_SIZE);
    assert!(r.is_ok());
    let r = r.ok().unwrap();

    // exactly nine derivations from the epoch secret
    assert!(p.calls() == 9);
    let ks = &r.key_schedule;
    let es = &r.epoch_secrets;
    let s = &epoch_secret;
    assert!(is_out(&es.sender_data_secret, derived(&p, s, b"sender data"), NH));
    assert!(is_out(&ks.exporter_secret, derived(&p, s, b"exporter"), NH));
    assert!(is_out(&ks.external_secret, derived(&p, s, b"external"), NH));
    assert!(is_out(&r.confirmation_key, derived(&p, s, b"confirm"), NH));
    assert!(is_out(&ks.membership_key, derived(&p, s, b"membership"), NH));
    assert!(is_out(es.resumption_secret.raw_value(), derived(&p, s, b"resumption"), NH));
    assert!(is_out(&ks.authentication_secret, derived(&p, s, b"authentication"), NH));
    assert!(is_out(&ks.init_secret.0, derived(&p, s, b"init"), NH));
    // encryption_secret becomes the root secret of the epoch's secret tree
    let enc = derived(&p, s, b"encryption");
    unsafe {
        assert!(*core::ptr::addr_of!(TREE_NEW_CALLS) == 1);
        assert!(is_out(&*core::ptr::addr_of!(TREE_NEW_SECRET), enc, NH));
        assert!(*core::ptr::addr_of!(TREE_NEW_LEAVES) == TREE_SIZE);
    }
    assert!(r.joiner_secret.0.is_empty());
    core::mem::forget(r);
}

// a provider failure at the first or at the last of the nine derivations is reported as
// CryptoProviderError
#[kani::proof]
#[kani::stub(zeroize::optimization_barrier, noop_barrier)]
#[kani::stub(std::hash::RandomState::new, fixed_random_state)]
#[kani::stub(crate::group::secret_tree::SecretTree::new, recording_tree_new)]
#[kani::unwind(82)]
fn c13_from_epoch_secret_provider_error() {
    let epoch_secret = any_exact::<NH>();
    for_each_bool(|last| {
        let at = if last { 8 } else { 0 };
        let p = GhostProvider::failing_at(at);
        let r = KeySchedule::from_epoch_secret(&p, &epoch_secret, TREE_SIZE);
        assert!(is_provider_error(&r));
        assert!(p.calls() == at + 1);
        core::mem::forget(r);
    });
}

// ============================================================ 4. joiner / epoch / welcome
// (GroupContext oracle `rfc_group_context` and builder `group_context`: shared support above)
//
// The bytes that from_key_schedule / from_joiner feed into the "joiner" / "epoch" labels
// (`context.mls_encode_to_vec()`) are the RFC GroupContext encoding: all field values
// symbolic, group_id of length 0..=2 (one harness per length), tree_hash and
// confirmed_transcript_hash of every length 0..=1, no extensions (a context with one
// extension was tried and dropped: CBMC does not finish the ExtensionList encoding within
// 400 s / 25 GB even for a single case).
fn group_context_case(gid: &[u8], th: &[u8], cth: &[u8]) {
    let c = group_context(gid, th, cth, None);
    let enc = c.mls_encode_to_vec();
    assert!(enc.is_ok());
    let enc = enc.ok().unwrap();
    assert!(bytes_eq(&enc, &rfc_group_context(&c)));
    core::mem::forget(c);
}

macro_rules! group_context_encoding_harness {
    ($($name:ident: $gl:literal),* $(,)?) => { $(
        #[kani::proof]
        #[kani::unwind(82)]
        fn $name() {
            let g: [u8; $gl] = kani::any();
            let t: [u8; 1] = kani::any();
            let h: [u8; 1] = kani::any();
            for_each_prefix(&t, |th| for_each_prefix(&h, |cth| group_context_case(&g, th, cth)));
        }
    )* };
}

group_context_encoding_harness!(
    c13_group_context_encoding_g0_bounded_1: 0,
    c13_group_context_encoding_g1_bounded_1: 1,
    c13_group_context_encoding_g2_bounded_1: 2,
);

/// a PskSecret with symbolic content.  Its only field is private to psk/secret.rs and the
/// constructors yield zeros (`new`) or need a provider run (`calculate`); PskSecret is a
/// newtype of Zeroizing<Vec<u8>>, itself a newtype of Vec<u8>.
fn any_psk_secret() -> (PskSecret, Vec<u8>) {
    let v = any_exact::<NH>();
    let s: PskSecret = unsafe { core::mem::transmute::<Vec<u8>, PskSecret>(v.clone()) };
    assert!(s.len() == NH && s[0] == v[0] && s[1] == v[1]);
    (s, v)
}

// pre-epoch ("member") secret = KDF.Extract(salt = joiner_secret, ikm = psk_secret)
#[kani::proof]
#[kani::stub(zeroize::optimization_barrier, noop_barrier)]
#[kani::unwind(82)]
fn c13_get_pre_epoch_secret() {
    let p = GhostProvider::new();
    let joiner = any_exact::<NH>();
    let (psk, psk_bytes) = any_psk_secret();
    let js = JoinerSecret::from(Zeroizing::new(joiner.clone()));
    let r = get_pre_epoch_secret(&p, &psk, &js);
    assert!(r.is_ok());
    let o = r.ok().unwrap();
    assert!(p.calls() == 1);
    assert!(p.is(0, Op::Extract, &joiner, &psk_bytes, 0));
    assert!(is_out(&o, 1, NH));
    // without PSKs the psk_secret is KDF.Nh zero bytes
    assert!(is_out(&PskSecret::new(&p), 0, NH));
}

#[kani::proof]
#[kani::stub(zeroize::optimization_barrier, noop_barrier)]
#[kani::unwind(82)]
fn c13_get_pre_epoch_secret_provider_error() {
    let p = GhostProvider::failing_at(0);
    let (psk, _) = any_psk_secret();
    let js = JoinerSecret::from(Zeroizing::new(any_exact::<NH>()));
    let r = get_pre_epoch_secret(&p, &psk, &js);
    assert!(is_provider_error(&r));
    core::mem::forget(r);
}

fn small_context() -> GroupContext {
    let g: [u8; 2] = kani::any();
    let t: [u8; 1] = kani::any();
    let h: [u8; 2] = kani::any();
    group_context(&g, &t, &h, None)
}

// from_joiner and from_key_schedule are checked MODULARLY: the function they tail-call
// (from_epoch_secret, respectively from_joiner) is replaced by a recorder that stores its
// arguments and returns a result with marker values; the callee itself is checked by its
// own harness above / below.
static mut SUB_CALLS: usize = 0;
static mut SUB_SECRET: [u8; NH] = [0; NH];
static mut SUB_TREE_SIZE: u32 = 0;
static mut SUB_CONTEXT: *const GroupContext = core::ptr::null();
static mut SUB_PSK: *const PskSecret = core::ptr::null();

fn marker_result() -> KeyScheduleDerivationResult {
    KeyScheduleDerivationResult {
        key_schedule: KeySchedule {
            exporter_secret: Zeroizing::new(vec![0xe1]),
            authentication_secret: Zeroizing::new(vec![0xe2]),
            external_secret: Zeroizing::new(vec![0xe3]),
            membership_key: Zeroizing::new(vec![0xe4]),
            init_secret: InitSecret(Zeroizing::new(vec![0xe5])),
        },
        confirmation_key: Zeroizing::new(vec![0xe6]),
        joiner_secret: Zeroizing::new(vec![]).into(),
        epoch_secrets: EpochSecrets {
            resumption_secret: PreSharedKey::new(vec![0xe7]),
            sender_data_secret: SenderDataSecret::from(vec![0xe8]),
            secret_tree: SecretTree::empty(),
        },
    }
}

fn is_marker_result(r: &KeyScheduleDerivationResult) -> bool {
    let ks = &r.key_schedule;
    is_out(&ks.exporter_secret, 0xe1, 1)
        && is_out(&ks.authentication_secret, 0xe2, 1)
        && is_out(&ks.external_secret, 0xe3, 1)
        && is_out(&ks.membership_key, 0xe4, 1)
        && is_out(&ks.init_secret.0, 0xe5, 1)
        && is_out(&r.confirmation_key, 0xe6, 1)
        && is_out(r.epoch_secrets.resumption_secret.raw_value(), 0xe7, 1)
        && is_out(&r.epoch_secrets.sender_data_secret, 0xe8, 1)
}

fn recording_from_epoch_secret<P: CipherSuiteProvider>(
    _p: &P,
    epoch_secret: &[u8],
    secret_tree_size: u32,
) -> Result<KeyScheduleDerivationResult, MlsError> {
    assert!(epoch_secret.len() == NH);
    unsafe {
        *core::ptr::addr_of_mut!(SUB_CALLS) += 1;
        (*core::ptr::addr_of_mut!(SUB_SECRET)).copy_from_slice(epoch_secret);
        *core::ptr::addr_of_mut!(SUB_TREE_SIZE) = secret_tree_size;
    }
    Ok(marker_result())
}

fn recording_from_joiner<P: CipherSuiteProvider>(
    _p: &P,
    joiner_secret: &JoinerSecret,
    context: &GroupContext,
    secret_tree_size: u32,
    psk_secret: &PskSecret,
) -> Result<KeyScheduleDerivationResult, MlsError> {
    assert!(joiner_secret.0.len() == NH);
    unsafe {
        *core::ptr::addr_of_mut!(SUB_CALLS) += 1;
        (*core::ptr::addr_of_mut!(SUB_SECRET)).copy_from_slice(&joiner_secret.0);
        *core::ptr::addr_of_mut!(SUB_TREE_SIZE) = secret_tree_size;
        *core::ptr::addr_of_mut!(SUB_CONTEXT) = context as *const GroupContext;
        *core::ptr::addr_of_mut!(SUB_PSK) = psk_secret as *const PskSecret;
    }
    Ok(marker_result())
}

// from_joiner: epoch_secret = ExpandWithLabel(Extract(joiner_secret, psk_secret), "epoch",
// GroupContext_[n], KDF.Nh); the epoch's secrets are from_epoch_secret(epoch_secret)
#[kani::proof]
#[kani::stub(zeroize::optimization_barrier, noop_barrier)]
#[kani::stub(std::hash::RandomState::new, fixed_random_state)]
#[kani::stub(crate::group::key_schedule::KeySchedule::from_epoch_secret, recording_from_epoch_secret)]
#[kani::unwind(82)]
fn c13_from_joiner() {
    let p = GhostProvider::new();
    let joiner = any_exact::<NH>();
    let (psk, psk_bytes) = any_psk_secret();
    let ctx = small_context();
    let js = JoinerSecret::from(Zeroizing::new(joiner.clone()));

    let r = KeySchedule::from_joiner(&p, &js, &ctx, TREE_SIZE, &psk);
    assert!(r.is_ok());
    let r = r.ok().unwrap();

    assert!(p.calls() == 2);
    assert!(p.is(0, Op::Extract, &joiner, &psk_bytes, 0));
    let info = rfc_kdf_label(NH as u16, b"epoch", &rfc_group_context(&ctx));
    assert!(p.is(1, Op::Expand, &out(1, NH), &info, NH));
    unsafe {
        assert!(*core::ptr::addr_of!(SUB_CALLS) == 1);
        assert!(is_out(&*core::ptr::addr_of!(SUB_SECRET), 2, NH));
        assert!(*core::ptr::addr_of!(SUB_TREE_SIZE) == TREE_SIZE);
    }
    assert!(is_marker_result(&r));
    core::mem::forget((r, ctx));
}

// from_key_schedule (figure 22, top to "joiner_secret"):
//   joiner_secret = ExpandWithLabel(Extract(salt = init_secret_[n-1], ikm = commit_secret),
//                                   "joiner", GroupContext_[n], KDF.Nh)
// then from_joiner(joiner_secret, the same context, the same psk_secret); the result carries
// from_joiner's secrets and the joiner secret
#[kani::proof]
#[kani::stub(zeroize::optimization_barrier, noop_barrier)]
#[kani::stub(std::hash::RandomState::new, fixed_random_state)]
#[kani::stub(crate::group::key_schedule::KeySchedule::from_joiner, recording_from_joiner)]
#[kani::unwind(82)]
fn c13_from_key_schedule() {
    let p = GhostProvider::new();
    let init = any_exact::<NH>();
    let commit = any_exact::<NH>();
    let (psk, _) = any_psk_secret();
    let ctx = small_context();
    let last = KeySchedule::new(InitSecret(Zeroizing::new(init.clone())));
    let commit_secret = PathSecret::from(commit.clone());

    let r = KeySchedule::from_key_schedule(&last, &commit_secret, &ctx, TREE_SIZE, &psk, &p);
    assert!(r.is_ok());
    let r = r.ok().unwrap();

    let gc = rfc_group_context(&ctx);
    assert!(p.calls() == 2);
    assert!(p.is(0, Op::Extract, &init, &commit, 0));
    assert!(p.is(1, Op::Expand, &out(1, NH), &rfc_kdf_label(NH as u16, b"joiner", &gc), NH));
    assert!(is_out(&r.joiner_secret.0, 2, NH));
    unsafe {
        assert!(*core::ptr::addr_of!(SUB_CALLS) == 1);
        assert!(is_out(&*core::ptr::addr_of!(SUB_SECRET), 2, NH));
        assert!(*core::ptr::addr_of!(SUB_TREE_SIZE) == TREE_SIZE);
        assert!(*core::ptr::addr_of!(SUB_CONTEXT) == &ctx as *const GroupContext);
        assert!(*core::ptr::addr_of!(SUB_PSK) == &psk as *const PskSecret);
    }
    assert!(is_marker_result(&r));
    core::mem::forget((r, ctx, last));
}

// Welcome (section 12.4.3.1): welcome_secret = DeriveSecret(Extract(joiner_secret, psk_secret),
// "welcome"); welcome_nonce = ExpandWithLabel(welcome_secret, "nonce", "", AEAD.Nn);
// welcome_key = ExpandWithLabel(welcome_secret, "key", "", AEAD.Nk)
#[kani::proof]
#[kani::stub(zeroize::optimization_barrier, noop_barrier)]
#[kani::unwind(82)]
fn c13_welcome_secret() {
    let p = GhostProvider::new();
    let joiner = any_exact::<NH>();
    let (psk, psk_bytes) = any_psk_secret();
    let js = JoinerSecret::from(Zeroizing::new(joiner.clone()));

    let r = WelcomeSecret::from_joiner_secret(&p, &js, &psk);
    assert!(r.is_ok());
    let w = r.ok().unwrap();
    assert!(p.calls() == 4);
    assert!(p.is(0, Op::Extract, &joiner, &psk_bytes, 0));
    assert!(p.is(1, Op::Expand, &out(1, NH), &rfc_kdf_label(NH as u16, b"welcome", &[]), NH));
    let k = p.find(Op::Expand, &out(2, NH), &rfc_kdf_label(NK as u16, b"key", &[]), NK);
    let n = p.find(Op::Expand, &out(2, NH), &rfc_kdf_label(NN as u16, b"nonce", &[]), NN);
    assert!(k.is_some() && n.is_some());
    assert!(is_out(&w.key, k.unwrap(), NH));
    assert!(is_out(&w.nonce, n.unwrap(), NH));
}

// ============================================================ 5. exporter
// MLS-Exporter(Label, Context, Length) =
//     ExpandWithLabel(DeriveSecret(exporter_secret, Label), "exported", Hash(Context), Length)
// every Length 0..=65535, label of length 0..=4 (one harness per length), context of length
// 0..=2 (symbolic bytes)
fn export_secret_case(label: &[u8], context: &[u8]) {
    let exporter = any_exact::<NH>();
    let len: usize = kani::any();
    kani::assume(len <= 0xffff);
    let mut ks = KeySchedule::default();
    ks.exporter_secret = Zeroizing::new(exporter.clone());
    let p = GhostProvider::new();

    let r = ks.export_secret(label, context, len, &p);
    assert!(r.is_ok());
    let o = r.ok().unwrap();
    assert!(p.calls() == 3);
    let d = p.find(Op::Expand, &exporter, &rfc_kdf_label(NH as u16, label, &[]), NH);
    let h = p.find(Op::Hash, &[], context, 0);
    assert!(d.is_some() && h.is_some());
    let info = rfc_kdf_label(len as u16, b"exported", &out(h.unwrap(), HASH_LEN));
    assert!(p.is(2, Op::Expand, &out(d.unwrap(), NH), &info, len));
    assert!(is_out(&o, 3, NH));
    core::mem::forget(ks);
}

macro_rules! export_secret_harness {
    ($($name:ident: $ll:literal),* $(,)?) => { $(
        #[kani::proof]
        #[kani::stub(zeroize::optimization_barrier, noop_barrier)]
        #[kani::unwind(82)]
        fn $name() {
            let label: [u8; $ll] = kani::any();
            let c: [u8; 2] = kani::any();
            for_each_prefix(&c, |context| export_secret_case(&label, context));
        }
    )* };
}

export_secret_harness!(
    c13_export_secret_l1_bounded_2: 1,
    c13_export_secret_l2_bounded_2: 2,
    c13_export_secret_l3_bounded_2: 3,
    c13_export_secret_l4_bounded_2: 4,
);

#[kani::proof]
#[kani::stub(zeroize::optimization_barrier, noop_barrier)]
#[kani::unwind(82)]
fn c13_export_secret_l0_bounded_2() {
    let label: [u8; 1] = kani::any();
    let c: [u8; 2] = kani::any();
    for_each_prefix(&c, |context| export_secret_case(&label[..0], context));
}

// a deleted exporter secret yields ExporterDeleted and no KDF call
#[kani::proof]
#[kani::stub(zeroize::optimization_barrier, noop_barrier)]
#[kani::unwind(82)]
fn c13_export_secret_deleted() {
    let p = GhostProvider::new();
    let mut ks = KeySchedule::default();
    ks.exporter_secret = Zeroizing::new(any_exact::<NH>());
    ks.delete_exporter();
    let r = ks.export_secret(b"ab", b"c", kani::any(), &p);
    assert!(matches!(r, Err(MlsError::ExporterDeleted)));
    assert!(p.calls() == 0);
    core::mem::forget((r, ks));
}

