// Verification-only module (cfg(kani)); copied into the scratch copy of /repo by
// /verif/engine/kani_run.py.
//
// C13, secret-tree part (RFC 9420 section 9): the real SecretTree / SecretKeyRatchet code is
// run against the ghost crypto provider (see key_schedule/verif_kani.rs) and the recorded
// KDF calls are compared byte for byte with
//   tree_node_[left(N)]_secret  = ExpandWithLabel(tree_node_[N]_secret, "tree", "left",  KDF.Nh)
//   tree_node_[right(N)]_secret = ExpandWithLabel(tree_node_[N]_secret, "tree", "right", KDF.Nh)
//   handshake_ratchet_secret_[N]_[0]   = ExpandWithLabel(tree_node_[N]_secret, "handshake", "", KDF.Nh)
//   application_ratchet_secret_[N]_[0] = ExpandWithLabel(tree_node_[N]_secret, "application", "", KDF.Nh)
//   DeriveTreeSecret(Secret, Label, Generation, Length) =
//       ExpandWithLabel(Secret, Label, Generation, Length)          (Generation: uint32)
//   ratchet_nonce_[N]_[j] = DeriveTreeSecret(ratchet_secret_[N]_[j], "nonce", j, AEAD.Nn)
//   ratchet_key_[N]_[j]   = DeriveTreeSecret(ratchet_secret_[N]_[j], "key", j, AEAD.Nk)
//   ratchet_secret_[N]_[j+1] = DeriveTreeSecret(ratchet_secret_[N]_[j], "secret", j, KDF.Nh)
use super::*;

crate::c13_ghost_support!();

// MAP MODEL.  TreeSecretsVec keeps the node secrets in a std HashMap; hashbrown's SIMD probing
// is beyond CBMC (one insert does not finish symbolic execution in 10 minutes).  The two
// accessors through which the secret tree touches that map,
//     TreeSecretsVec::set_node(index, value)  = inner.insert(index, value)
//     TreeSecretsVec::take_node(&index)       = inner.remove(&index)
// are replaced by an array-backed map with the same insert / remove semantics.
const MODEL_N: usize = 16;
static mut MODEL: [Option<SecretTreeNode>; MODEL_N] = [const { None }; MODEL_N];

fn model_slot<T>(index: &T) -> &'static mut Option<SecretTreeNode> {
    assert!(core::mem::size_of::<T>() == 4);
    let i = unsafe { core::mem::transmute_copy::<T, u32>(index) } as usize;
    assert!(i < MODEL_N);
    unsafe { &mut (*core::ptr::addr_of_mut!(MODEL))[i] }
}

fn model_set_node<T: TreeIndex>(_this: &mut TreeSecretsVec<T>, index: T, value: SecretTreeNode) {
    // (the replaced value is not dropped: no drop glue for the harness to execute)
    core::mem::forget(core::mem::replace(model_slot(&index), Some(value)));
}

fn model_take_node<T: TreeIndex>(_this: &mut TreeSecretsVec<T>, index: &T) -> Option<SecretTreeNode> {
    model_slot(index).take()
}

fn model_len() -> usize {
    let mut n = 0;
    let mut i = 0;
    while i < MODEL_N {
        if model_slot(&(i as u32)).is_some() {
            n += 1;
        }
        i += 1;
    }
    n
}

fn node_secret(i: u32) -> Option<&'static [u8]> {
    match model_slot(&i) {
        Some(SecretTreeNode::Secret(s)) => Some(s.0.as_slice()),
        _ => None,
    }
}

// The tree-math functions of tree_kem/math.rs carry C20 contracts whose oracle walks down the
// maximal tree (25 iterations).  The contracts are proved by the C20 harnesses and are not
// what these harnesses check, but Kani compiles them into every caller; their oracle is cut
// out here so that the harness-wide unwind bound can stay small.
fn no_oracle_3(_x: u64, _r: u64, _right: bool) -> bool {
    true
}
fn no_oracle_1(x: u64) -> bool {
    x % 2 == 0
}
fn no_oracle_ps(_x: u64, _n: u64, _r: Option<(u64, u64)>) -> bool {
    true
}

// Independent child computation (not the xor formulas of math.rs / RFC appendix C): a node
// whose index ends in k one-bits (k >= 1) is the root of a subtree of 2^k leaves; its
// children are the midpoints of the two halves, 2^(k-1) below / above it.
fn spec_level(x: u32) -> u32 {
    let mut k = 0;
    let mut y = x;
    while y % 2 == 1 {
        k += 1;
        y /= 2;
    }
    k
}

// ------------------------------------------------------------ SecretTree::new
// the encryption secret is the secret of the root: node n - 1 of a tree of n (power of two) leaves
#[kani::proof]
#[kani::stub(zeroize::optimization_barrier, noop_barrier)]
#[kani::stub(std::hash::RandomState::new, fixed_random_state)]
#[kani::stub(crate::group::secret_tree::TreeSecretsVec::set_node, model_set_node)]
#[kani::stub(crate::group::secret_tree::TreeSecretsVec::take_node, model_take_node)]
#[kani::unwind(82)]
fn c13_tree_new_bounded_8() {
    let enc = any_exact::<NH>();
    let e: u32 = kani::any();
    kani::assume(e <= 3);
    let leaves = 1u32 << e;
    let t = SecretTree::<u32>::new(leaves, Zeroizing::new(enc.clone()));
    assert!(t.leaf_count == leaves);
    assert!(model_len() == 1);
    // root of the left-balanced tree with `leaves` leaves: 2^k - 1 with 2^k = leaves
    assert!(bytes_eq(node_secret(leaves - 1).unwrap(), &enc));
    core::mem::forget(t);
}

// ------------------------------------------------------------ consume_node
// every parent node of a 8-leaf tree (indices 1, 3, 5, 7, 9, 11, 13; one harness each),
// symbolic secret
fn consume_node_case(index: u32) {
    let secret = any_exact::<NH>();
    let p = GhostProvider::new();
    let mut t = SecretTree::<u32>::empty();
    t.leaf_count = 8;
    t.known_secrets
        .set_node(index, SecretTreeNode::Secret(TreeSecret::from(secret.clone())));

    let r = t.consume_node(&p, &index);
    assert!(r.is_ok());

    let k = spec_level(index);
    let left = index - (1u32 << (k - 1));
    let right = index + (1u32 << (k - 1));
    assert!(p.calls() == 2);
    let l = p.find(Op::Expand, &secret, &rfc_kdf_label(NH as u16, b"tree", b"left"), NH);
    let r = p.find(Op::Expand, &secret, &rfc_kdf_label(NH as u16, b"tree", b"right"), NH);
    assert!(l.is_some() && r.is_some());
    // the consumed node is gone, exactly the two children were added
    assert!(model_len() == 2);
    assert!(node_secret(index).is_none());
    assert!(is_out(node_secret(left).unwrap(), l.unwrap(), NH));
    assert!(is_out(node_secret(right).unwrap(), r.unwrap(), NH));
    core::mem::forget(t);
}

macro_rules! consume_node_harness {
    ($($name:ident: $idx:literal),* $(,)?) => { $(
        #[kani::proof]
        #[kani::stub(zeroize::optimization_barrier, noop_barrier)]
        #[kani::stub(std::hash::RandomState::new, fixed_random_state)]
        #[kani::stub(crate::group::secret_tree::TreeSecretsVec::set_node, model_set_node)]
        #[kani::stub(crate::group::secret_tree::TreeSecretsVec::take_node, model_take_node)]
        #[kani::stub(crate::tree_kem::math::verif_kani::spec_child_ok, no_oracle_3)]
        #[kani::stub(crate::tree_kem::math::verif_kani::spec_is_leaf, no_oracle_1)]
        #[kani::stub(crate::tree_kem::math::verif_kani::spec_parent_sibling_ok, no_oracle_ps)]
        #[kani::unwind(82)]
        fn $name() {
            consume_node_case($idx);
        }
    )* };
}

consume_node_harness!(
    c13_consume_node_n01_bounded_8: 1,
    c13_consume_node_n03_bounded_8: 3,
    c13_consume_node_n05_bounded_8: 5,
    c13_consume_node_n07_bounded_8: 7,
    c13_consume_node_n09_bounded_8: 9,
    c13_consume_node_n11_bounded_8: 11,
    c13_consume_node_n13_bounded_8: 13,
);

// ------------------------------------------------------------ SecretKeyRatchet::new
#[kani::proof]
#[kani::stub(zeroize::optimization_barrier, noop_barrier)]
#[kani::stub(std::hash::RandomState::new, fixed_random_state)]
#[kani::unwind(82)]
fn c13_ratchet_new() {
    let secret = any_exact::<NH>();
    // (case split: the two labels have different lengths)
    for_each_bool(|handshake| {
        let p = GhostProvider::new();
        let kt = if handshake { KeyType::Handshake } else { KeyType::Application };
        let r = SecretKeyRatchet::new(&p, &secret, kt);
        assert!(r.is_ok());
        let r = r.ok().unwrap();
        let label: &[u8] = if handshake { b"handshake" } else { b"application" };
        assert!(p.calls() == 1);
        assert!(p.is(0, Op::Expand, &secret, &rfc_kdf_label(NH as u16, label, &[]), NH));
        assert!(is_out(&r.secret, 1, NH));
        assert!(r.generation == 0);
        assert!(r.history.is_empty());
        core::mem::forget(r);
    });
}

#[kani::proof]
#[kani::stub(zeroize::optimization_barrier, noop_barrier)]
#[kani::stub(std::hash::RandomState::new, fixed_random_state)]
#[kani::unwind(82)]
fn c13_ratchet_new_provider_error() {
    let secret = any_exact::<NH>();
    for_each_bool(|handshake| {
        let p = GhostProvider::failing_at(0);
        let kt = if handshake { KeyType::Handshake } else { KeyType::Application };
        let r = SecretKeyRatchet::new(&p, &secret, kt);
        assert!(is_provider_error(&r));
        core::mem::forget(r);
    });
}

fn ratchet(secret: &[u8], generation: u32) -> SecretKeyRatchet {
    SecretKeyRatchet {
        secret: TreeSecret::from(secret.to_vec()),
        generation,
        history: Default::default(),
    }
}

// ------------------------------------------------------------ derive_secret (DeriveTreeSecret)
// every generation (u32), every length 0..=65535, label of <= 4 symbolic bytes
#[kani::proof]
#[kani::stub(zeroize::optimization_barrier, noop_barrier)]
#[kani::stub(std::hash::RandomState::new, fixed_random_state)]
#[kani::unwind(82)]
fn c13_ratchet_derive_secret_bounded_4() {
    let secret = any_exact::<NH>();
    let generation: u32 = kani::any();
    let l: [u8; 4] = kani::any();
    let len: usize = kani::any();
    kani::assume(len <= 0xffff);
    let rt = ratchet(&secret, generation);
    for_each_prefix(&l, |label| {
        let p = GhostProvider::new();
        let r = rt.derive_secret(&p, label, len);
        assert!(r.is_ok());
        let o = r.ok().unwrap();

        let mut ctx = Vec::new();
        rfc_u32(&mut ctx, generation);
        assert!(p.calls() == 1);
        assert!(p.is(0, Op::Expand, &secret, &rfc_kdf_label(len as u16, label, &ctx), len));
        assert!(is_out(&o, 1, NH));
    });
    core::mem::forget(rt);
}

#[kani::proof]
#[kani::stub(zeroize::optimization_barrier, noop_barrier)]
#[kani::stub(std::hash::RandomState::new, fixed_random_state)]
#[kani::unwind(82)]
fn c13_ratchet_derive_secret_provider_error() {
    let p = GhostProvider::failing_at(0);
    let secret = any_exact::<NH>();
    let rt = ratchet(&secret, kani::any());
    let r = rt.derive_secret(&p, b"key", NK);
    assert!(is_provider_error(&r));
    core::mem::forget(r);
}

// ------------------------------------------------------------ next_message_key
// every generation j < 2^32 - 1 (at j = 2^32 - 1 the code's `generation + 1` overflows)
#[kani::proof]
#[kani::stub(zeroize::optimization_barrier, noop_barrier)]
#[kani::stub(std::hash::RandomState::new, fixed_random_state)]
#[kani::unwind(82)]
fn c13_ratchet_next_message_key() {
    let p = GhostProvider::new();
    let secret = any_exact::<NH>();
    let j: u32 = kani::any();
    kani::assume(j < u32::MAX);
    let mut rt = ratchet(&secret, j);

    let r = rt.next_message_key(&p);
    assert!(r.is_ok());
    let k = r.ok().unwrap();

    let mut ctx = Vec::new();
    rfc_u32(&mut ctx, j);
    assert!(p.calls() == 3);
    let n = p.find(Op::Expand, &secret, &rfc_kdf_label(NN as u16, b"nonce", &ctx), NN);
    let e = p.find(Op::Expand, &secret, &rfc_kdf_label(NK as u16, b"key", &ctx), NK);
    let s = p.find(Op::Expand, &secret, &rfc_kdf_label(NH as u16, b"secret", &ctx), NH);
    assert!(n.is_some() && e.is_some() && s.is_some());
    assert!(is_out(&k.nonce, n.unwrap(), NH));
    assert!(is_out(&k.key, e.unwrap(), NH));
    assert!(k.generation == j);
    assert!(is_out(&rt.secret, s.unwrap(), NH));
    assert!(rt.generation == j + 1);
}

// a provider failure at any of the three derivations is reported as CryptoProviderError
#[kani::proof]
#[kani::stub(zeroize::optimization_barrier, noop_barrier)]
#[kani::stub(std::hash::RandomState::new, fixed_random_state)]
#[kani::unwind(82)]
fn c13_ratchet_next_message_key_provider_error() {
    let secret = any_exact::<NH>();
    let j: u32 = kani::any();
    kani::assume(j < u32::MAX);
    for_each_below(3, |at| {
        let p = GhostProvider::failing_at(at as usize);
        let mut rt = ratchet(&secret, j);
        let r = rt.next_message_key(&p);
        assert!(is_provider_error(&r));
        assert!(p.calls() == at as usize + 1);
        core::mem::forget((r, rt));
    });
}

// ------------------------------------------------------------ whole path: root -> leaf -> key
// 4-leaf tree, every leaf (node index 0, 2, 4, 6; one harness each, two with the handshake
// and two with the application ratchet): the first message key of
// a fresh epoch is derived through the chain
//   encryption_secret -> "tree"/left|right (twice) -> "handshake"|"application" -> nonce/key
// and the sibling secrets on the way stay in the tree.
macro_rules! first_message_key_harness {
    ($($name:ident: ($leaf:literal, $hs:literal)),* $(,)?) => { $(
        #[kani::proof]
        #[kani::stub(zeroize::optimization_barrier, noop_barrier)]
        #[kani::stub(std::hash::RandomState::new, fixed_random_state)]
        #[kani::stub(crate::group::secret_tree::TreeSecretsVec::set_node, model_set_node)]
        #[kani::stub(crate::group::secret_tree::TreeSecretsVec::take_node, model_take_node)]
        #[kani::stub(crate::tree_kem::math::verif_kani::spec_child_ok, no_oracle_3)]
        #[kani::stub(crate::tree_kem::math::verif_kani::spec_is_leaf, no_oracle_1)]
        #[kani::stub(crate::tree_kem::math::verif_kani::spec_parent_sibling_ok, no_oracle_ps)]
        #[kani::unwind(82)]
        fn $name() {
            let enc = any_exact::<NH>();
            first_message_key_case(&enc, $leaf, $hs);
        }
    )* };
}

// DISABLED (cfg(any())): each case takes ~8 min, and the check as written FAILS for a harness
// reason, not a code reason: `find` demands a unique matching call, but a symbolic
// encryption secret can coincide with a ghost token ([1, 1] ...), which makes the root's and
// the middle node's "tree" derivations indistinguishable.  Needs `assume(enc[0] > 16)` or
// positional checks; not re-run for lack of time.
#[cfg(any())]
first_message_key_harness!(
    c13_tree_first_message_key_leaf0_application_bounded_4: (0, false),
    c13_tree_first_message_key_leaf1_handshake_bounded_4: (1, true),
    c13_tree_first_message_key_leaf2_handshake_bounded_4: (2, true),
    c13_tree_first_message_key_leaf3_application_bounded_4: (3, false),
);

#[allow(dead_code)]
fn first_message_key_case(enc: &[u8], leaf: u32, handshake: bool) {
    let p = GhostProvider::new();
    let kt = if handshake { KeyType::Handshake } else { KeyType::Application };
    let mut t = SecretTree::<u32>::new(4, Zeroizing::new(enc.to_vec()));

    let r = t.next_message_key(&p, 2 * leaf, kt);
    assert!(r.is_ok());
    let k = r.ok().unwrap();

    // 4 leaves: nodes 0..=6, root 3, its children 1 and 5, leaves 0 2 4 6
    let left_l = rfc_kdf_label(NH as u16, b"tree", b"left");
    let right_l = rfc_kdf_label(NH as u16, b"tree", b"right");
    let root_l = p.find(Op::Expand, enc, &left_l, NH);
    let root_r = p.find(Op::Expand, enc, &right_l, NH);
    assert!(root_l.is_some() && root_r.is_some());
    let (mid, other_mid, other_mid_idx) = if leaf < 2 {
        (root_l.unwrap(), root_r.unwrap(), 5u32)
    } else {
        (root_r.unwrap(), root_l.unwrap(), 1u32)
    };
    let mid_l = p.find(Op::Expand, &out(mid, NH), &left_l, NH);
    let mid_r = p.find(Op::Expand, &out(mid, NH), &right_l, NH);
    assert!(mid_l.is_some() && mid_r.is_some());
    let (leaf_tag, sib_tag, sib_idx) = if leaf % 2 == 0 {
        (mid_l.unwrap(), mid_r.unwrap(), 2 * leaf + 2)
    } else {
        (mid_r.unwrap(), mid_l.unwrap(), 2 * leaf - 2)
    };
    let leaf_secret = out(leaf_tag, NH);
    let hs = p.find(Op::Expand, &leaf_secret, &rfc_kdf_label(NH as u16, b"handshake", &[]), NH);
    let ap = p.find(Op::Expand, &leaf_secret, &rfc_kdf_label(NH as u16, b"application", &[]), NH);
    assert!(hs.is_some() && ap.is_some());
    let used = out(if handshake { hs.unwrap() } else { ap.unwrap() }, NH);
    let gen0 = [0u8, 0, 0, 0];
    let n = p.find(Op::Expand, &used, &rfc_kdf_label(NN as u16, b"nonce", &gen0), NN);
    let e = p.find(Op::Expand, &used, &rfc_kdf_label(NK as u16, b"key", &gen0), NK);
    let s = p.find(Op::Expand, &used, &rfc_kdf_label(NH as u16, b"secret", &gen0), NH);
    assert!(n.is_some() && e.is_some() && s.is_some());
    assert!(p.calls() == 9);
    assert!(is_out(&k.nonce, n.unwrap(), NH));
    assert!(is_out(&k.key, e.unwrap(), NH));
    assert!(k.generation == 0);

    // tree afterwards: the two copath secrets and the leaf's ratchets
    assert!(model_len() == 3);
    assert!(is_out(node_secret(other_mid_idx).unwrap(), other_mid, NH));
    assert!(is_out(node_secret(sib_idx).unwrap(), sib_tag, NH));
    match model_slot(&(2 * leaf)) {
        Some(SecretTreeNode::Ratchet(rs)) => {
            let (used_r, idle_r, idle_tag) = if handshake {
                (&rs.handshake, &rs.application, ap.unwrap())
            } else {
                (&rs.application, &rs.handshake, hs.unwrap())
            };
            assert!(is_out(&used_r.secret, s.unwrap(), NH) && used_r.generation == 1);
            assert!(is_out(&idle_r.secret, idle_tag, NH) && idle_r.generation == 0);
        }
        _ => assert!(false),
    }
    // leave the model empty for the next case
    let mut i = 0;
    while i < MODEL_N {
        core::mem::forget(model_slot(&(i as u32)).take());
        i += 1;
    }
    core::mem::forget((t, k));
}
