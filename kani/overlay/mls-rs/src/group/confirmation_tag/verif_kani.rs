// Verification-only module (cfg(kani)); copied into the scratch copy of /repo by
// /verif/engine/kani_run.py.
//
// C13, confirmation tag (RFC 9420 section 6.1 / 8.1):
//   confirmation_tag = MAC(confirmation_key, GroupContext.confirmed_transcript_hash)
// checked on the real ConfirmationTag::create / matches against the ghost provider of
// key_schedule/verif_kani.rs.
use super::*;

crate::c13_ghost_support!();

#[kani::proof]
#[kani::stub(zeroize::optimization_barrier, noop_barrier)]
#[kani::unwind(82)]
fn c13_confirmation_tag_bounded_4() {
    let p = GhostProvider::new();
    let key = any_bytes::<4>();
    let hash = any_bytes::<4>();
    let cth = ConfirmedTranscriptHash::from(hash.clone());

    let r = ConfirmationTag::create(&key, &cth, &p);
    assert!(r.is_ok());
    let tag = r.ok().unwrap();
    assert!(p.calls() == 1);
    // MAC(key = confirmation_key, data = confirmed_transcript_hash)
    assert!(p.is(0, Op::Mac, &key, &hash, 0));
    assert!(is_out(&tag, 1, MAC_LEN));
}

#[kani::proof]
#[kani::stub(zeroize::optimization_barrier, noop_barrier)]
#[kani::unwind(82)]
fn c13_confirmation_tag_provider_error_bounded_4() {
    let p = GhostProvider::failing_at(0);
    let key = any_bytes::<4>();
    let cth = ConfirmedTranscriptHash::from(any_bytes::<4>());
    let r = ConfirmationTag::create(&key, &cth, &p);
    assert!(is_provider_error(&r));
    core::mem::forget(r);
}

// matches() recomputes the same MAC and accepts exactly the recomputed value
#[kani::proof]
#[kani::stub(zeroize::optimization_barrier, noop_barrier)]
#[kani::unwind(82)]
fn c13_confirmation_tag_matches_bounded_4() {
    let p = GhostProvider::new();
    let key = any_bytes::<4>();
    let hash = any_bytes::<4>();
    let cth = ConfirmedTranscriptHash::from(hash.clone());
    let claimed = ConfirmationTag(any_bytes::<6>());

    let r = claimed.matches(&key, &cth, &p);
    assert!(r.is_ok());
    let ok = r.ok().unwrap();
    assert!(p.calls() == 1);
    assert!(p.is(0, Op::Mac, &key, &hash, 0));
    assert!(ok == is_out(&claimed, 1, MAC_LEN));
}
