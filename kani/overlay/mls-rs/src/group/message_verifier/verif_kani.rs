// Verification-only module (cfg(kani)) for C03 (PublicMessage authentication, RFC 9420
// section 6.1 / 6.2): the crypto-free DECISIONS of message_verifier.rs -
//   * which key a message must verify under, per sender type (re-attribution to another
//     sender / structurally invalid content is an error, never a panic);
//   * which senders must / must not carry a membership tag, and that the tag decision is
//     taken BEFORE the signature is looked at.
// Cryptography is abstract: a ghost CipherSuiteProvider whose `mac` returns two symbolic bytes
// and whose `verify` answers a symbolic boolean; every other provider method is unreachable
// (the harness would fail on `unreachable!` otherwise).  No ratchet tree is materialised: the
// member keys come from SignaturePublicKeysContainer::List (the container used for
// PrivateMessage senders and by ExternalGroup), not from RatchetTree.
use super::*;
use crate::group::framing::{ApplicationData, Content, FramedContent};
use crate::group::message_signature::{FramedContentAuthData, MessageSignature};
use crate::group::proposal::{Proposal, RemoveProposal};
use crate::group::Commit;
use crate::identity::basic::BasicCredential;
use crate::tree_kem::node::MAX_LEAF_INDEX;
use crate::ExtensionList;
use alloc::boxed::Box;
use alloc::vec::Vec;
use core::mem::ManuallyDrop;
use mls_rs_core::crypto::{
    CipherSuite, HpkeCiphertext, HpkeContextR, HpkeContextS, HpkePsk, HpkePublicKey,
    HpkeSecretKey, SignatureSecretKey,
};
use mls_rs_core::protocol_version::ProtocolVersion;
use zeroize::Zeroizing;

// zeroize::optimization_barrier is inline asm (unsupported by Kani); ApplicationData is
// ZeroizeOnDrop.  Same signature as zeroize 1.9.0 `pub fn optimization_barrier<T: ?Sized>(val: &T)`.
fn noop_barrier<T: ?Sized>(_val: &T) {}

fn key(b: u8) -> SignaturePublicKey {
    SignaturePublicKey::from(alloc::vec![b])
}

fn is_key(k: &SignaturePublicKey, b: u8) -> bool {
    let s: &[u8] = k.as_ref();
    s.len() == 1 && s[0] == b
}

// ------------------------------------------------------------------ member keys (List)
/// signing_identity_for_member(List(l), i):
///   Ok(k)                  <==> i < |l| and l[i] == Some(k)
///   Err(LeafNotFound(i))   otherwise (blank or out-of-range leaf)
/// List length <= 3 (bounded), every index 0..=MAX_LEAF_INDEX, every blank pattern, key bytes
/// symbolic.
#[kani::proof]
#[kani::unwind(5)]
fn c03_signing_key_for_member_list_bounded_3() {
    let n: usize = kani::any();
    kani::assume(n <= 3);
    let present: [bool; 3] = kani::any();
    let kb: [u8; 3] = kani::any();
    let mut list: Vec<Option<SignaturePublicKey>> = Vec::new();
    let mut i = 0;
    while i < n {
        list.push(if present[i] { Some(key(kb[i])) } else { None });
        i += 1;
    }
    let list = ManuallyDrop::new(list);
    let idx: u32 = kani::any();
    kani::assume(idx <= MAX_LEAF_INDEX);

    let r = ManuallyDrop::new(signing_identity_for_member(
        SignaturePublicKeysContainer::List(&list),
        LeafIndex::unchecked(idx),
    ));
    let i = idx as usize;
    match &*r {
        Ok(k) => assert!(i < n && present[i] && is_key(k, kb[i])),
        Err(e) => {
            assert!(!(i < n && present[i]));
            assert!(matches!(e, MlsError::LeafNotFound(x) if *x == idx));
        }
    }
    kani::cover!(r.is_ok() && idx == 2);
    kani::cover!(r.is_err() && i < n); // blank leaf
    kani::cover!(r.is_err() && i >= n && n == 3); // out of range
}

// ------------------------------------------------------------------ external senders
fn signer(b: u8) -> SigningIdentity {
    SigningIdentity::new(
        crate::identity::Credential::Basic(BasicCredential { identifier: Vec::new() }),
        key(b),
    )
}

/// signing_identity_for_external(i, signers):
///   Ok(signers[i].signature_key)                  <==> i < |signers|
///   Err(UnknownSigningIdentityForExternalSender)  otherwise
/// |signers| <= 2 (bounded), every u32 index.
#[kani::proof]
#[kani::unwind(4)]
fn c03_signing_key_for_external_bounded_2() {
    let n: usize = kani::any();
    kani::assume(n <= 2);
    let kb: [u8; 2] = kani::any();
    let mut signers: Vec<SigningIdentity> = Vec::new();
    let mut i = 0;
    while i < n {
        signers.push(signer(kb[i]));
        i += 1;
    }
    let signers = ManuallyDrop::new(signers);
    let idx: u32 = kani::any();

    let r = ManuallyDrop::new(signing_identity_for_external(idx, &signers));
    match &*r {
        Ok(k) => assert!((idx as usize) < n && is_key(k, kb[idx as usize])),
        Err(e) => {
            assert!((idx as usize) >= n);
            assert!(matches!(e, MlsError::UnknownSigningIdentityForExternalSender));
        }
    }
    kani::cover!(r.is_ok() && idx == 1);
    kani::cover!(r.is_err() && n == 2);
    kani::cover!(r.is_err() && n == 0);
}

// ------------------------------------------------------------------ dispatch on the sender type
#[derive(Clone, Copy, PartialEq, Eq)]
enum ContentShape {
    Application,
    ProposalRemove,
    CommitNoPath,
}

fn content_of(shape: ContentShape) -> Content {
    match shape {
        ContentShape::Application => Content::Application(ApplicationData::from(Vec::new())),
        ContentShape::ProposalRemove => Content::Proposal(Box::new(Proposal::Remove(
            RemoveProposal { to_remove: LeafIndex::unchecked(0) },
        ))),
        ContentShape::CommitNoPath => {
            Content::Commit(Box::new(Commit { proposals: Vec::new(), path: None }))
        }
    }
}

/// signing_identity_for_sender: the verification key is selected by the SENDER TYPE alone, and
/// content that cannot come from that sender type is an error:
///   member(i)            -> key of leaf i (List) | InvalidTreeIndex (i > 2^24-1) | LeafNotFound
///   external(i)          -> i-th external sender | UnknownSigningIdentityForExternalSender
///   new_member_commit    -> content must be a Commit (else ExpectedCommitForNewMemberCommit)
///                           WITH a path (else CommitMissingPath)
///   new_member_proposal  -> content must be an Add proposal (else
///                           ExpectedAddProposalForNewMemberProposal)
/// One harness per content shape (the content variant is then a literal: CBMC does not have to
/// execute the drop / encode code of the other variants).
fn dispatch_body(shape: ContentShape) {
    let content = ManuallyDrop::new(content_of(shape));
    let list = ManuallyDrop::new(alloc::vec![Some(key(7)), None]);
    let signers = ManuallyDrop::new(alloc::vec![signer(9)]);
    let idx: u32 = kani::any();
    let k: u8 = kani::any();
    kani::assume(k < 4);
    let sender = match k {
        0 => Sender::Member(idx),
        1 => Sender::External(idx),
        2 => Sender::NewMemberProposal,
        _ => Sender::NewMemberCommit,
    };

    let r = ManuallyDrop::new(signing_identity_for_sender(
        SignaturePublicKeysContainer::List(&list),
        &sender,
        &content,
        &signers,
    ));
    match k {
        0 => match &*r {
            Ok(key) => assert!(idx == 0 && is_key(key, 7)),
            Err(MlsError::InvalidTreeIndex) => assert!(idx > MAX_LEAF_INDEX),
            Err(MlsError::LeafNotFound(x)) => assert!(*x == idx && idx >= 1 && idx <= MAX_LEAF_INDEX),
            Err(_) => assert!(false),
        },
        1 => match &*r {
            Ok(key) => assert!(idx == 0 && is_key(key, 9)),
            Err(e) => {
                assert!(idx != 0);
                assert!(matches!(e, MlsError::UnknownSigningIdentityForExternalSender));
            }
        },
        2 => assert!(matches!(&*r, Err(MlsError::ExpectedAddProposalForNewMemberProposal))),
        _ => match shape {
            ContentShape::CommitNoPath => assert!(matches!(&*r, Err(MlsError::CommitMissingPath))),
            _ => assert!(matches!(&*r, Err(MlsError::ExpectedCommitForNewMemberCommit))),
        },
    }
    kani::cover!(k == 0 && r.is_ok());
    kani::cover!(k == 0 && idx == 0x0100_0000);
    kani::cover!(k == 1 && r.is_ok());
    kani::cover!(k == 3);
}

#[kani::proof]
#[kani::unwind(4)]
#[kani::stub(zeroize::optimization_barrier, noop_barrier)]
fn c03_signing_identity_dispatch_application() {
    dispatch_body(ContentShape::Application);
}

#[kani::proof]
#[kani::unwind(4)]
#[kani::stub(zeroize::optimization_barrier, noop_barrier)]
fn c03_signing_identity_dispatch_proposal() {
    dispatch_body(ContentShape::ProposalRemove);
}

#[kani::proof]
#[kani::unwind(4)]
#[kani::stub(zeroize::optimization_barrier, noop_barrier)]
fn c03_signing_identity_dispatch_commit_without_path() {
    dispatch_body(ContentShape::CommitNoPath);
}

// ------------------------------------------------------------------ ghost provider
#[derive(Debug)]
struct GhostErr;
impl mls_rs_core::error::IntoAnyError for GhostErr {}

struct NoCtx;
impl HpkeContextS for NoCtx {
    type Error = GhostErr;
    fn seal(&mut self, _aad: Option<&[u8]>, _data: &[u8]) -> Result<Vec<u8>, GhostErr> {
        unreachable!()
    }
    fn export(&self, _c: &[u8], _len: usize) -> Result<Zeroizing<Vec<u8>>, GhostErr> {
        unreachable!()
    }
}
impl HpkeContextR for NoCtx {
    type Error = GhostErr;
    fn open(&mut self, _aad: Option<&[u8]>, _ct: &[u8]) -> Result<Zeroizing<Vec<u8>>, GhostErr> {
        unreachable!()
    }
    fn export(&self, _c: &[u8], _len: usize) -> Result<Zeroizing<Vec<u8>>, GhostErr> {
        unreachable!()
    }
}

/// `mac` -> two symbolic bytes (the "expected membership tag"); `verify` -> symbolic verdict,
/// and it records under which key it was asked.  `crypto_allowed == false` turns both into
/// `unreachable!`: used to show that a decision is taken without touching any cryptography.
struct Ghost {
    mac_out: [u8; 2],
    sig_ok: bool,
    crypto_allowed: bool,
    verify_key: core::cell::Cell<Option<u8>>,
    mac_calls: core::cell::Cell<u8>,
}

// the trait requires Send + Sync; the harness is single-threaded
unsafe impl Sync for Ghost {}

impl CipherSuiteProvider for Ghost {
    type Error = GhostErr;
    type HpkeContextS = NoCtx;
    type HpkeContextR = NoCtx;

    fn cipher_suite(&self) -> CipherSuite {
        unreachable!()
    }
    fn hash(&self, _data: &[u8]) -> Result<Vec<u8>, GhostErr> {
        unreachable!()
    }
    fn mac(&self, _key: &[u8], _data: &[u8]) -> Result<Vec<u8>, GhostErr> {
        assert!(self.crypto_allowed);
        self.mac_calls.set(self.mac_calls.get() + 1);
        Ok(self.mac_out.to_vec())
    }
    fn aead_seal(
        &self,
        _key: &[u8],
        _data: &[u8],
        _aad: Option<&[u8]>,
        _nonce: &[u8],
    ) -> Result<Vec<u8>, GhostErr> {
        unreachable!()
    }
    fn aead_open(
        &self,
        _key: &[u8],
        _ciphertext: &[u8],
        _aad: Option<&[u8]>,
        _nonce: &[u8],
    ) -> Result<Zeroizing<Vec<u8>>, GhostErr> {
        unreachable!()
    }
    fn aead_key_size(&self) -> usize {
        unreachable!()
    }
    fn aead_nonce_size(&self) -> usize {
        unreachable!()
    }
    fn kdf_extract(&self, _salt: &[u8], _ikm: &[u8]) -> Result<Zeroizing<Vec<u8>>, GhostErr> {
        unreachable!()
    }
    fn kdf_expand(&self, _prk: &[u8], _info: &[u8], _len: usize) -> Result<Zeroizing<Vec<u8>>, GhostErr> {
        unreachable!()
    }
    fn kdf_extract_size(&self) -> usize {
        unreachable!()
    }
    fn hpke_seal(
        &self,
        _remote_key: &HpkePublicKey,
        _info: &[u8],
        _aad: Option<&[u8]>,
        _pt: &[u8],
    ) -> Result<HpkeCiphertext, GhostErr> {
        unreachable!()
    }
    fn hpke_seal_psk(
        &self,
        _remote_key: &HpkePublicKey,
        _info: &[u8],
        _aad: Option<&[u8]>,
        _pt: &[u8],
        _psk: HpkePsk<'_>,
    ) -> Result<HpkeCiphertext, GhostErr> {
        unreachable!()
    }
    fn hpke_open(
        &self,
        _ciphertext: &HpkeCiphertext,
        _local_secret: &HpkeSecretKey,
        _local_public: &HpkePublicKey,
        _info: &[u8],
        _aad: Option<&[u8]>,
    ) -> Result<Zeroizing<Vec<u8>>, GhostErr> {
        unreachable!()
    }
    fn hpke_open_psk(
        &self,
        _ciphertext: &HpkeCiphertext,
        _local_secret: &HpkeSecretKey,
        _local_public: &HpkePublicKey,
        _info: &[u8],
        _aad: Option<&[u8]>,
        _psk: HpkePsk<'_>,
    ) -> Result<Zeroizing<Vec<u8>>, GhostErr> {
        unreachable!()
    }
    fn hpke_setup_s(
        &self,
        _remote_key: &HpkePublicKey,
        _info: &[u8],
    ) -> Result<(Vec<u8>, NoCtx), GhostErr> {
        unreachable!()
    }
    fn hpke_setup_r(
        &self,
        _kem_output: &[u8],
        _local_secret: &HpkeSecretKey,
        _local_public: &HpkePublicKey,
        _info: &[u8],
    ) -> Result<NoCtx, GhostErr> {
        unreachable!()
    }
    fn kem_derive(&self, _ikm: &[u8]) -> Result<(HpkeSecretKey, HpkePublicKey), GhostErr> {
        unreachable!()
    }
    fn kem_generate(&self) -> Result<(HpkeSecretKey, HpkePublicKey), GhostErr> {
        unreachable!()
    }
    fn kem_public_key_validate(&self, _key: &HpkePublicKey) -> Result<(), GhostErr> {
        unreachable!()
    }
    fn random_bytes(&self, _out: &mut [u8]) -> Result<(), GhostErr> {
        unreachable!()
    }
    fn signature_key_generate(&self) -> Result<(SignatureSecretKey, SignaturePublicKey), GhostErr> {
        unreachable!()
    }
    fn signature_key_derive_public(&self, _k: &SignatureSecretKey) -> Result<SignaturePublicKey, GhostErr> {
        unreachable!()
    }
    fn sign(&self, _k: &SignatureSecretKey, _data: &[u8]) -> Result<Vec<u8>, GhostErr> {
        unreachable!()
    }
    fn verify(&self, k: &SignaturePublicKey, _sig: &[u8], _data: &[u8]) -> Result<(), GhostErr> {
        assert!(self.crypto_allowed);
        let s: &[u8] = k.as_ref();
        self.verify_key.set(if s.len() == 1 { Some(s[0]) } else { None });
        if self.sig_ok {
            Ok(())
        } else {
            Err(GhostErr)
        }
    }
}

fn ghost(crypto_allowed: bool) -> Ghost {
    Ghost {
        mac_out: kani::any(),
        sig_ok: kani::any(),
        crypto_allowed,
        verify_key: core::cell::Cell::new(None),
        mac_calls: core::cell::Cell::new(0),
    }
}

fn group_context() -> GroupContext {
    GroupContext::new(
        ProtocolVersion::MLS_10,
        CipherSuite::from(1u16),
        Vec::new(),
        Vec::new(),
        ExtensionList::new(), // no external_senders extension
    )
}

fn application_message(sender: Sender, tag: Option<[u8; 2]>) -> PublicMessage {
    PublicMessage {
        content: FramedContent {
            group_id: Vec::new(),
            epoch: 0,
            sender,
            authenticated_data: Vec::new(),
            content: Content::Application(ApplicationData::from(Vec::new())),
        },
        auth: FramedContentAuthData {
            signature: MessageSignature::from(Vec::new()),
            confirmation_tag: None,
        },
        membership_tag: tag.map(|t| MembershipTag::from(t.to_vec())),
    }
}

/// verify_plaintext_authentication, NON-MEMBER senders (external, new_member_proposal,
/// new_member_commit), RFC 9420 section 6.2 ("the membership_tag field ... only present for
/// sender_type member"):
///   tag present  ==> Err(MembershipTagForNonMember), whether or not a membership key is known,
///                    and NO cryptographic operation is performed (Ghost { crypto_allowed:
///                    false } would fail the proof);
///   tag absent   ==> the decision is handed to the key selection of the sender type; for the
///                    application-content message used here every non-member is then refused
///                    before any cryptography as well.
#[kani::proof]
#[kani::unwind(4)]
#[kani::stub(zeroize::optimization_barrier, noop_barrier)]
fn c03_membership_tag_forbidden_for_non_members() {
    let p = ghost(false);
    let ctx = ManuallyDrop::new(group_context());
    let idx: u32 = kani::any();
    let k: u8 = kani::any();
    kani::assume(k < 3);
    let sender = match k {
        0 => Sender::External(idx),
        1 => Sender::NewMemberProposal,
        _ => Sender::NewMemberCommit,
    };
    let tag: Option<[u8; 2]> = kani::any();
    let has_key: bool = kani::any();
    let mkey = [1u8, 2, 3];
    let list = ManuallyDrop::new(alloc::vec![Some(key(7))]);

    let r = ManuallyDrop::new(verify_plaintext_authentication(
        &p,
        application_message(sender, tag),
        if has_key { Some(&mkey[..]) } else { None },
        &ctx,
        SignaturePublicKeysContainer::List(&list),
    ));
    match &*r {
        Ok(_) => assert!(false),
        Err(e) => {
            if tag.is_some() {
                assert!(matches!(e, MlsError::MembershipTagForNonMember));
            } else {
                match k {
                    0 => assert!(matches!(e, MlsError::UnknownSigningIdentityForExternalSender)),
                    1 => assert!(matches!(e, MlsError::ExpectedAddProposalForNewMemberProposal)),
                    _ => assert!(matches!(e, MlsError::ExpectedCommitForNewMemberCommit)),
                }
            }
        }
    }
    assert!(p.mac_calls.get() == 0 && p.verify_key.get().is_none());
    kani::cover!(tag.is_some() && k == 0 && has_key);
    kani::cover!(tag.is_some() && k == 2 && !has_key);
    kani::cover!(tag.is_none() && k == 1);
}

/// verify_plaintext_authentication, MEMBER sender, membership key known (what Group passes):
///   Ok(content)  <==>  tag present  and  tag == MAC(membership_key, TBM)  and  the sender's
///                      leaf has a key  and  the signature verifies under THAT key
///   tag absent or different ==> Err(InvalidMembershipTag) and the signature is never looked at
///   and the accepted content is reported with the true sender and wire format.
/// With no membership key (ExternalGroup, external commits) the tag of a member message is
/// not checked at all (it cannot be): acceptance then rests on the signature alone.
#[kani::proof]
#[kani::unwind(10)] // the u64 epoch is written by an 8-iteration loop
#[kani::stub(zeroize::optimization_barrier, noop_barrier)]
fn c03_membership_tag_required_for_members() {
    let p = ghost(true);
    let ctx = ManuallyDrop::new(group_context());
    let idx: u32 = kani::any();
    let tag: Option<[u8; 2]> = kani::any();
    let has_key: bool = kani::any();
    let mkey = [1u8, 2, 3];
    // leaf 0 has key 7, leaf 1 is blank
    let list = ManuallyDrop::new(alloc::vec![Some(key(7)), None]);

    let r = ManuallyDrop::new(verify_plaintext_authentication(
        &p,
        application_message(Sender::Member(idx), tag),
        if has_key { Some(&mkey[..]) } else { None },
        &ctx,
        SignaturePublicKeysContainer::List(&list),
    ));

    let tag_ok = !has_key || tag == Some(p.mac_out);
    match &*r {
        Ok(c) => {
            assert!(tag_ok && idx == 0 && p.sig_ok);
            assert!(p.verify_key.get() == Some(7)); // verified under the key of leaf `idx`
            assert!(c.content.sender == Sender::Member(idx));
            assert!(c.wire_format == crate::WireFormat::PublicMessage);
            assert!(c.auth.confirmation_tag.is_none());
        }
        Err(e) => {
            if !tag_ok {
                assert!(matches!(e, MlsError::InvalidMembershipTag));
                assert!(p.verify_key.get().is_none()); // tag decision precedes the signature
            } else if idx > MAX_LEAF_INDEX {
                assert!(matches!(e, MlsError::InvalidTreeIndex));
            } else if idx != 0 {
                assert!(matches!(e, MlsError::LeafNotFound(x) if *x == idx));
            } else {
                assert!(!p.sig_ok && matches!(e, MlsError::InvalidSignature));
            }
        }
    }
    // the MAC is computed exactly when a membership key is known
    assert!(p.mac_calls.get() == if has_key { 1 } else { 0 });

    kani::cover!(r.is_ok() && has_key);
    kani::cover!(r.is_ok() && !has_key && tag.is_none());
    kani::cover!(has_key && tag.is_none());
    kani::cover!(has_key && tag.is_some() && !tag_ok);
    kani::cover!(tag_ok && idx == 0 && !p.sig_ok);
    kani::cover!(tag_ok && idx == 1);
}
