// Verification-only module (cfg(kani)); copied into the scratch copy of /repo by
// /verif/engine/kani_run.py.
//
// C13, membership tag (RFC 9420 section 6.1 / 6.2), against the ghost provider of
// key_schedule/verif_kani.rs:
//
//   membership_tag = MAC(membership_key, AuthenticatedContentTBM)
//   struct { FramedContentTBS content_tbs; FramedContentAuthData auth; } AuthenticatedContentTBM;
//   struct { ProtocolVersion version = mls10; WireFormat wire_format; FramedContent content;
//            select (content.sender.sender_type) {
//              case member: case new_member_commit: GroupContext context;
//              case external: case new_member_proposal: struct{}; } } FramedContentTBS;
//   struct { opaque signature<V>;
//            select (content_type) { case commit: MAC confirmation_tag; default: struct{}; } }
//       FramedContentAuthData;
//
// The expected MAC input is assembled by hand (no mls-rs-codec).  Bounds: group_id 2,
// authenticated_data 1, signature 2, confirmation tag 2, tree hash 1, confirmed transcript
// hash 2 bytes (all values symbolic); content = empty Commit (with confirmation tag) or
// application data of 2 bytes (without); sender = member (the only sender whose messages
// carry a membership tag).
use super::*;
use crate::group::commit::Commit;
use crate::group::confirmation_tag::ConfirmationTag;
use crate::group::framing::{ApplicationData, Content, FramedContent, Sender, WireFormat};
use crate::group::message_signature::MessageSignature;

crate::c13_ghost_support!();

fn membership_case(commit: bool) {
    let p = GhostProvider::new();
    let key = any_exact::<NH>();
    let gid = any_exact::<2>();
    let th = any_exact::<1>();
    let cth = any_exact::<2>();
    let ctx = group_context(&gid, &th, &cth, None);
    let leaf: u32 = kani::any();
    let ad = any_exact::<1>();
    let sig = any_exact::<2>();
    let tag = any_exact::<2>();
    let app = any_exact::<2>();
    let epoch: u64 = kani::any();

    let content = if commit {
        Content::Commit(alloc::boxed::Box::new(Commit { proposals: vec![], path: None }))
    } else {
        Content::Application(ApplicationData::from(app.clone()))
    };
    let confirmation_tag = if commit {
        let enc = [2u8, tag[0], tag[1]];
        Some(ConfirmationTag::mls_decode(&mut &enc[..]).ok().unwrap())
    } else {
        None
    };
    let auth = AuthenticatedContent {
        wire_format: WireFormat::PublicMessage,
        content: FramedContent {
            group_id: gid.clone(),
            epoch,
            sender: Sender::Member(leaf),
            authenticated_data: ad.clone(),
            content,
        },
        auth: FramedContentAuthData { signature: MessageSignature::from(sig.clone()), confirmation_tag },
    };

    let r = MembershipTag::create(&auth, &ctx, &key, &p);
    assert!(r.is_ok());
    let t = r.ok().unwrap();

    let mut want = Vec::with_capacity(80);
    rfc_u16(&mut want, *ctx.protocol_version); // version (mls10 in every valid group)
    rfc_u16(&mut want, 1); // wire_format = mls_public_message
    rfc_opaque(&mut want, &gid);
    rfc_u64(&mut want, epoch);
    want.push(1); // sender_type = member
    rfc_u32(&mut want, leaf);
    rfc_opaque(&mut want, &ad);
    if commit {
        want.push(3); // content_type = commit
        want.push(0); // proposals<V>, empty
        want.push(0); // optional<UpdatePath> absent
    } else {
        want.push(1); // content_type = application
        rfc_opaque(&mut want, &app);
    }
    want.extend_from_slice(&rfc_group_context(&ctx)); // sender is a member
    rfc_opaque(&mut want, &sig);
    if commit {
        rfc_opaque(&mut want, &tag);
    }
    assert!(p.calls() == 1);
    assert!(p.is(0, Op::Mac, &key, &want, 0));
    assert!(is_out(&t, 1, MAC_LEN));
    core::mem::forget((auth, ctx));
}

// DISABLED: stopped after 11 minutes without a verdict (Commit content + confirmation tag).
#[cfg(any())]
#[kani::proof]
#[kani::unwind(82)]
fn c13_membership_tag_commit_bounded_2() {
    membership_case(true);
}

#[kani::proof]
#[kani::stub(zeroize::optimization_barrier, noop_barrier)]
#[kani::unwind(82)]
fn c13_membership_tag_application_bounded_2() {
    membership_case(false);
}

// DISABLED: stopped after 12 minutes without a verdict.
#[cfg(any())]
#[kani::proof]
#[kani::unwind(82)]
fn c13_membership_tag_provider_error() {
    let p = GhostProvider::failing_at(0);
    let ctx = group_context(&[1], &[2], &[3], None);
    let auth = AuthenticatedContent {
        wire_format: WireFormat::PublicMessage,
        content: FramedContent {
            group_id: vec![1],
            epoch: kani::any(),
            sender: Sender::Member(kani::any()),
            authenticated_data: vec![],
            content: Content::Commit(alloc::boxed::Box::new(Commit { proposals: vec![], path: None })),
        },
        auth: FramedContentAuthData { signature: MessageSignature::from(vec![]), confirmation_tag: None },
    };
    let r = MembershipTag::create(&auth, &ctx, &any_exact::<NH>(), &p);
    assert!(is_provider_error(&r));
    core::mem::forget((r, auth, ctx));
}
