// Verification-only module (cfg(kani)); copied into the scratch copy of /repo by
// /verif/engine/kani_run.py.
//
// C13, transcript hashes (RFC 9420 section 8.2), against the ghost provider of
// key_schedule/verif_kani.rs:
//
//   struct { WireFormat wire_format; FramedContent content; /* commit */
//            opaque signature<V>; } ConfirmedTranscriptHashInput;
//   struct { MAC confirmation_tag; } InterimTranscriptHashInput;          (MAC = opaque<V>)
//   confirmed_transcript_hash_[n] = Hash(interim_transcript_hash_[n-1] || ConfirmedTranscriptHashInput_[n])
//   interim_transcript_hash_[n]   = Hash(confirmed_transcript_hash_[n] || InterimTranscriptHashInput_[n])
//
//   struct { opaque group_id<V>; uint64 epoch; Sender sender; opaque authenticated_data<V>;
//            ContentType content_type;            // application(1) proposal(2) commit(3)
//            select (content_type) { case commit: Commit commit; ... } } FramedContent;
//   struct { SenderType sender_type;   // member(1) external(2) new_member_proposal(3) new_member_commit(4)
//            select (sender_type) { case member: uint32 leaf_index;
//                                   case external: uint32 sender_index; ... } } Sender;
//   struct { ProposalOrRef proposals<V>; optional<UpdatePath> path; } Commit;
//   struct { ProposalOrRefType type;   // proposal(1) reference(2)
//            select (type) { case proposal: Proposal proposal; ... } } ProposalOrRef;
//   struct { ProposalType proposal_type;  // uint16, remove(3)
//            select (proposal_type) { case remove: Remove remove; ... } } Proposal;
//   struct { uint32 removed; } Remove;
//
// The expected hash input is assembled by hand from these definitions (no mls-rs-codec).
// Bounds: group_id 2, authenticated_data 1, signature 2, previous hash 2 bytes (values
// symbolic); commit content with no proposal or one Remove proposal, no path.
use super::*;
use crate::group::commit::Commit;
use crate::group::framing::{Content, Sender};
use crate::group::proposal::{Proposal, ProposalOrRef, RemoveProposal};
use crate::tree_kem::node::LeafIndex;

crate::c13_ghost_support!();

fn rfc_sender(o: &mut Vec<u8>, s: &Sender) {
    match s {
        Sender::Member(i) => {
            o.push(1);
            rfc_u32(o, *i);
        }
        Sender::External(i) => {
            o.push(2);
            rfc_u32(o, *i);
        }
        Sender::NewMemberProposal => o.push(3),
        Sender::NewMemberCommit => o.push(4),
    }
}

/// FramedContent carrying a Commit with the given Remove proposals and no path
fn rfc_framed_commit(c: &FramedContent, removed: Option<u32>) -> Vec<u8> {
    let mut o = Vec::with_capacity(48);
    rfc_opaque(&mut o, &c.group_id);
    rfc_u64(&mut o, c.epoch);
    rfc_sender(&mut o, &c.sender);
    rfc_opaque(&mut o, &c.authenticated_data);
    o.push(3); // content_type = commit
    let mut proposals = Vec::with_capacity(8);
    if let Some(r) = removed {
        proposals.push(1); // ProposalOrRefType proposal
        rfc_u16(&mut proposals, 3); // ProposalType remove
        rfc_u32(&mut proposals, r);
    }
    rfc_opaque(&mut o, &proposals);
    o.push(0); // optional<UpdatePath> absent
    o
}

fn sender_of(kind: u8) -> Sender {
    match kind {
        0 => Sender::Member(kani::any()),
        1 => Sender::External(kani::any()),
        2 => Sender::NewMemberProposal,
        _ => Sender::NewMemberCommit,
    }
}

fn commit_content(sender: Sender, removed: Option<u32>) -> FramedContent {
    let proposals = match removed {
        Some(r) => vec![ProposalOrRef::from(Proposal::Remove(RemoveProposal {
            to_remove: LeafIndex::unchecked(r),
        }))],
        None => vec![],
    };
    FramedContent {
        group_id: any_exact::<2>(),
        epoch: kani::any(),
        sender,
        authenticated_data: any_exact::<1>(),
        content: Content::Commit(alloc::boxed::Box::new(Commit { proposals, path: None })),
    }
}

fn confirmed_case(sender_kind: u8, with_remove: bool) {
    let p = GhostProvider::new();
    let removed: Option<u32> = with_remove.then(|| kani::any());
    let content = commit_content(sender_of(sender_kind), removed);
    let signature = any_exact::<2>();
    let wire_format = if kani::any() { WireFormat::PublicMessage } else { WireFormat::PrivateMessage };
    let auth = AuthenticatedContent {
        wire_format,
        content,
        auth: crate::group::message_signature::FramedContentAuthData {
            signature: MessageSignature::from(signature.clone()),
            confirmation_tag: None, // not part of the confirmed transcript hash input
        },
    };
    let prev = any_exact::<2>();
    let interim = InterimTranscriptHash::from(prev.clone());

    let r = create(&p, &interim, &auth);
    assert!(r.is_ok());
    let h = r.ok().unwrap();

    let mut want = Vec::with_capacity(64);
    want.extend_from_slice(&prev);
    rfc_u16(&mut want, if wire_format == WireFormat::PublicMessage { 1 } else { 2 });
    want.extend_from_slice(&rfc_framed_commit(&auth.content, removed));
    rfc_opaque(&mut want, &signature);
    assert!(p.calls() == 1);
    assert!(p.is(0, Op::Hash, &[], &want, 0));
    assert!(is_out(&h, 1, HASH_LEN));
    core::mem::forget(auth);
}

// DISABLED: stopped after 8 minutes without a verdict.
#[cfg(any())]
#[kani::proof]
#[kani::unwind(82)]
fn c13_confirmed_transcript_hash_bounded_2() {
    for_each_bool(|with_remove| for_each_below(4, |k| confirmed_case(k as u8, with_remove)));
}

// interim_transcript_hash = Hash(confirmed_transcript_hash || opaque confirmation_tag<V>);
// confirmed hash of 0..=2 bytes, tag of 0..=3 bytes
// DISABLED: CBMC aborted ("CBMC failed") after ~10 minutes; cause not examined.
#[cfg(any())]
#[kani::proof]
#[kani::unwind(82)]
fn c13_interim_transcript_hash_bounded_3() {
    let c: [u8; 2] = kani::any();
    let t: [u8; 3] = kani::any();
    for_each_prefix(&c, |confirmed| {
        for_each_prefix(&t, |tag| {
            let p = GhostProvider::new();
            // ConfirmationTag has no public constructor: decode it from <len> tag
            let mut enc = vec![tag.len() as u8];
            enc.extend_from_slice(tag);
            let ct = ConfirmationTag::mls_decode(&mut &enc[..]).ok().unwrap();
            assert!(bytes_eq(&ct, tag));
            let cth = ConfirmedTranscriptHash::from(confirmed.to_vec());

            let r = InterimTranscriptHash::create(&p, &cth, &ct);
            assert!(r.is_ok());
            let h = r.ok().unwrap();
            let mut want = Vec::with_capacity(8);
            want.extend_from_slice(confirmed);
            rfc_opaque(&mut want, tag);
            assert!(p.calls() == 1);
            assert!(p.is(0, Op::Hash, &[], &want, 0));
            assert!(is_out(&h, 1, HASH_LEN));
        })
    });
}

#[kani::proof]
#[kani::unwind(82)]
fn c13_transcript_hash_provider_error() {
    let p = GhostProvider::failing_at(0);
    let ct = ConfirmationTag::mls_decode(&mut &[1u8, 7][..]).ok().unwrap();
    let cth = ConfirmedTranscriptHash::from(any_exact::<2>());
    let r = InterimTranscriptHash::create(&p, &cth, &ct);
    assert!(is_provider_error(&r));
    core::mem::forget(r);
}
