// Verification-only module (cfg(kani)); copied into the scratch copy of /repo by
// /verif/engine/kani_run.py.  Oracle for C20: the array-based left-balanced binary
// tree of RFC 9420 section 4 / Appendix C, written STRUCTURALLY (in-order numbering:
// a subtree occupies a contiguous node interval [lo, hi], its root is the midpoint,
// the left/right subtrees are the two halves) and not with the bit formulas the code
// and the RFC's reference snippets share.
use super::*;
use alloc::vec::Vec;

pub const MAX_LEAVES: u64 = 1 << 24; // MAX_LEAF_INDEX + 1 (node.rs)
pub const MAX_NODES: u64 = 2 * MAX_LEAVES - 1; // node indices 0 ..= MAX_NODES - 1

pub fn valid_leaf_count(n: u64) -> bool {
    n >= 1 && n <= MAX_LEAVES && (n & (n - 1)) == 0
}

#[derive(Clone, Copy)]
pub struct Descent {
    pub lo: u64,
    pub hi: u64,
    pub parent: Option<u64>,
    pub sibling: Option<u64>,
}

/// Walk from the root of the tree with `n` leaves down to node `x`.
/// Precondition: n >= 1, x <= 2(n-1).
pub fn descend(x: u64, n: u64) -> Descent {
    // all quantities are < 2^26, so 32-bit arithmetic is exact; `>> 1` is halving
    let x = x as u32;
    let mut lo = 0u32;
    let mut hi = 2 * (n as u32 - 1);
    let mut has_parent = false;
    let mut parent = 0u32;
    let mut sibling = 0u32;
    loop {
        let mid = (lo + hi) >> 1;
        if x == mid {
            break;
        }
        has_parent = true;
        parent = mid;
        if x < mid {
            sibling = (mid + 1 + hi) >> 1;
            hi = mid - 1;
        } else {
            sibling = (lo + mid - 1) >> 1;
            lo = mid + 1;
        }
    }
    Descent {
        lo: lo as u64,
        hi: hi as u64,
        parent: if has_parent { Some(parent as u64) } else { None },
        sibling: if has_parent { Some(sibling as u64) } else { None },
    }
}

pub fn spec_root_ok(n: u64, r: u64) -> bool {
    // midpoint of [0, 2(n-1)]
    r == (0 + 2 * (n - 1)) / 2
}

pub fn spec_parent_sibling_ok(x: u64, n: u64, r: Option<(u64, u64)>) -> bool {
    let d = descend(x, n);
    match (d.parent, d.sibling) {
        (Some(p), Some(s)) => r == Some((p, s)),
        _ => r.is_none(),
    }
}

pub fn spec_child_ok(x: u64, r: u64, right: bool) -> bool {
    let d = descend(x, MAX_LEAVES);
    if d.lo == d.hi {
        return false; // a leaf has no children
    }
    if right {
        r == (x + 1 + d.hi) >> 1
    } else {
        r == (d.lo + x - 1) >> 1
    }
}

pub fn spec_is_leaf(x: u64) -> bool {
    if x < MAX_NODES {
        let d = descend(x, MAX_LEAVES);
        d.lo == d.hi
    } else {
        x % 2 == 0
    }
}

pub fn spec_lca_level_ok(x: u32, y: u32, k: u32) -> bool {
    // least k such that x and y have the same ancestor k levels up
    let (x, y) = (x as u64, y as u64);
    k <= 32 && (x >> k) == (y >> k) && (k == 0 || (x >> (k - 1)) != (y >> (k - 1)))
}

pub fn spec_subtree_ok(x: u64, left: u64, right: u64) -> bool {
    let d = descend(x, MAX_LEAVES);
    // leaves are the even node indices; leaf i is node 2i
    left == d.lo >> 1 && right == (d.hi >> 1) + 1
}

impl kani::Arbitrary for ParentSibling<u32> {
    fn any() -> Self {
        ParentSibling { parent: kani::any(), sibling: kani::any() }
    }
}

// ------------------------------------------------------------------ harnesses
#[kani::proof_for_contract(<u32 as TreeIndex>::root)]
fn c20_root() {
    let n: u32 = kani::any();
    let r = n.root();
    // the same postcondition restated in the harness body, so that a counterexample can be
    // replayed against the real function with `cargo kani playback` (contracts are erased there)
    assert!(n < 1 || spec_root_ok(n as u64, r as u64));
}

// Case split over the 25 admissible tree sizes n = 2^k, k = 0..=24 (MAX_LEAF_INDEX caps the
// tree at 2^24 leaves).  With n symbolic the same obligation needs ~700 s of SAT time; with
// n fixed per harness each case takes seconds and the union is the same domain.
macro_rules! per_level {
    ($(($k:literal, $unw:literal, $ps:ident, $dc:ident)),* $(,)?) => { $(
        // unwind 27: Kani also evaluates the contracts of the callees left_unchecked /
        // right_unchecked, whose oracle descends the maximal tree (25 levels)
        #[kani::proof_for_contract(<u32 as TreeIndex>::parent_sibling)]
        #[kani::unwind(27)]
        fn $ps() {
            let x: u32 = kani::any();
            let n: u32 = 1u32 << $k;
            let r = x.parent_sibling(&n);
            assert!((x as u64) > 2 * (n as u64 - 1)
                || spec_parent_sibling_ok(x as u64, n as u64, r.as_ref().map(|ps| (ps.parent as u64, ps.sibling as u64))));
        }

        // modular: the loop body's callee is replaced by its (separately proved) contract
        #[kani::proof]
        #[kani::stub_verified(<u32 as TreeIndex>::parent_sibling)]
        #[kani::unwind($unw)]
        fn $dc() {
            direct_copath_body(1u32 << $k)
        }
    )* };
}

per_level!(
    (0, 3, c20_parent_sibling_k00, c20_direct_copath_k00),
    (1, 4, c20_parent_sibling_k01, c20_direct_copath_k01),
    (2, 5, c20_parent_sibling_k02, c20_direct_copath_k02),
    (3, 6, c20_parent_sibling_k03, c20_direct_copath_k03),
    (4, 7, c20_parent_sibling_k04, c20_direct_copath_k04),
    (5, 8, c20_parent_sibling_k05, c20_direct_copath_k05),
    (6, 9, c20_parent_sibling_k06, c20_direct_copath_k06),
    (7, 10, c20_parent_sibling_k07, c20_direct_copath_k07),
    (8, 11, c20_parent_sibling_k08, c20_direct_copath_k08),
    (9, 12, c20_parent_sibling_k09, c20_direct_copath_k09),
    (10, 13, c20_parent_sibling_k10, c20_direct_copath_k10),
    (11, 14, c20_parent_sibling_k11, c20_direct_copath_k11),
    (12, 15, c20_parent_sibling_k12, c20_direct_copath_k12),
    (13, 16, c20_parent_sibling_k13, c20_direct_copath_k13),
    (14, 17, c20_parent_sibling_k14, c20_direct_copath_k14),
    (15, 18, c20_parent_sibling_k15, c20_direct_copath_k15),
    (16, 19, c20_parent_sibling_k16, c20_direct_copath_k16),
    (17, 20, c20_parent_sibling_k17, c20_direct_copath_k17),
    (18, 21, c20_parent_sibling_k18, c20_direct_copath_k18),
    (19, 22, c20_parent_sibling_k19, c20_direct_copath_k19),
    (20, 23, c20_parent_sibling_k20, c20_direct_copath_k20),
    (21, 24, c20_parent_sibling_k21, c20_direct_copath_k21),
    (22, 25, c20_parent_sibling_k22, c20_direct_copath_k22),
    (23, 26, c20_parent_sibling_k23, c20_direct_copath_k23),
    (24, 27, c20_parent_sibling_k24, c20_direct_copath_k24)
);

#[kani::proof_for_contract(<u32 as TreeIndex>::left_unchecked)]
#[kani::unwind(27)]
fn c20_left() {
    let x: u32 = kani::any();
    kani::assume(x & 1 == 1 && (x as u64) < MAX_NODES);
    let r = x.left_unchecked();
    assert!(spec_child_ok(x as u64, r as u64, false));
}

#[kani::proof_for_contract(<u32 as TreeIndex>::right_unchecked)]
#[kani::unwind(27)]
fn c20_right() {
    let x: u32 = kani::any();
    kani::assume(x & 1 == 1 && (x as u64) < MAX_NODES);
    let r = x.right_unchecked();
    assert!(spec_child_ok(x as u64, r as u64, true));
}

#[kani::proof_for_contract(<u32 as TreeIndex>::is_leaf)]
#[kani::unwind(27)]
fn c20_is_leaf() {
    let x: u32 = kani::any();
    let r = x.is_leaf();
    assert!(r == spec_is_leaf(x as u64));
}

#[kani::proof_for_contract(<u32 as TreeIndex>::is_in_tree)]
fn c20_is_in_tree() {
    let x: u32 = kani::any();
    let root: u32 = kani::any();
    kani::assume((root as u64) < (1u64 << 31));
    let r = x.is_in_tree(&root);
    assert!(r == ((x as u64) <= 2 * (root as u64)));
}

#[kani::proof_for_contract(leaf_lca_level)]
#[kani::unwind(34)]
fn c20_leaf_lca_level() {
    let (x, y): (u32, u32) = (kani::any(), kani::any());
    let k = leaf_lca_level(x, y);
    assert!(spec_lca_level_ok(x, y, k));
}

#[kani::proof_for_contract(subtree)]
#[kani::unwind(27)]
fn c20_subtree() {
    let x: u32 = kani::any();
    kani::assume((x as u64) < MAX_NODES);
    let r = subtree(x);
    assert!(spec_subtree_ok(x as u64, *r.left as u64, *r.right as u64));
}

/// `left()` / `right()` (the checked variants used by the secret tree): None exactly on leaves.
#[kani::proof]
#[kani::unwind(27)]
fn c20_left_right_checked() {
    let x: u32 = kani::any();
    kani::assume((x as u64) < MAX_NODES);
    let l = x.left();
    let r = x.right();
    let d = descend(x as u64, MAX_LEAVES);
    if d.lo == d.hi {
        assert!(l.is_none() && r.is_none());
    } else {
        assert!(l.unwrap() as u64 == (d.lo + x as u64 - 1) >> 1);
        assert!(r.unwrap() as u64 == (x as u64 + 1 + d.hi) >> 1);
    }
}

/// direct_copath is a generic default method (no u64 view of `Self` is available inside
/// a contract attribute), so its contract is stated at the harness:
///   requires valid_leaf_count(n)
///   ensures  x outside [0, 2n-2]  ==> empty
///            otherwise element i is (parent^{i+1}(x), sibling(parent^i(x))) by structural
///            descent, and the last path element is the root; empty iff x is the root.
fn direct_copath_body(n: u32) {
    let x: u32 = kani::any();
    assert!(valid_leaf_count(n as u64));
    let v: Vec<CopathNode<u32>> = x.direct_copath(&n);
    if (x as u64) > 2 * (n as u64 - 1) {
        assert!(v.is_empty());
    } else {
        let mut cur = x as u64;
        let mut i = 0usize;
        loop {
            let d = descend(cur, n as u64);
            match (d.parent, d.sibling) {
                (Some(p), Some(s)) => {
                    assert!(i < v.len());
                    assert!(v[i].path as u64 == p);
                    assert!(v[i].copath as u64 == s);
                    cur = p;
                    i += 1;
                }
                _ => break,
            }
        }
        assert!(i == v.len());
        assert!(cur == n as u64 - 1);
    }
}

/// Index lemma used by decap / update_secrets (C03, C07, C09): for two distinct leaves of the
/// same tree, entry `leaf_lca_level(2c, 2j) - 2` of both direct paths is the same node (their
/// lowest common ancestor) and it exists in the path.
#[kani::proof]
#[kani::stub_verified(<u32 as TreeIndex>::parent_sibling)]
#[kani::unwind(10)]
fn c20_lca_index_lemma_bounded_64() {
    let n: u32 = kani::any();
    kani::assume(valid_leaf_count(n as u64) && n <= (1 << 6));
    let c: u32 = kani::any();
    let j: u32 = kani::any();
    kani::assume(c < n && j < n && c != j);
    let k = leaf_lca_level(2 * c, 2 * j);
    assert!(k >= 2);
    let idx = (k - 2) as usize;
    let pc = (2 * c).direct_copath(&n);
    let pj = (2 * j).direct_copath(&n);
    assert!(idx < pc.len() && idx < pj.len());
    assert!(pc[idx].path == pj[idx].path);
    if idx > 0 {
        assert!(pc[idx - 1].path != pj[idx - 1].path);
        // the child of the lca on c's side is j's copath node at the lca and vice versa
        assert!(pc[idx].copath == pj[idx - 1].path);
    } else {
        assert!(pc[idx].copath == 2 * j);
    }
}

/// BFS order (bounded stand-in, <= 16 leaves): level by level from the root, left to right.
#[kani::proof]
#[kani::unwind(34)]
fn c20_bfs_bounded_16() {
    let k: u32 = kani::any();
    kani::assume(k <= 4);
    let n = 1usize << k;
    let mut it = BfsIterTopDown::new(n);
    let mut level = k; // node level of the current row (root has level k)
    let mut pos = 0usize;
    let mut count = 0usize;
    while let Some(x) = it.next() {
        // the pos-th node (from the left) at `level` is (2*pos+1) * 2^level - 1
        assert!(x == ((2 * pos + 1) << level) - 1);
        count += 1;
        pos += 1;
        if pos == (n >> level) {
            pos = 0;
            if level == 0 {
                assert!(it.next().is_none());
                break;
            }
            level -= 1;
        }
    }
    assert!(count == 2 * n - 1);
}
