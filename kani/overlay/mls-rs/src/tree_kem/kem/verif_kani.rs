// Verification-only module (cfg(kani)); copied into the scratch copy of /repo by
// /verif/engine/kani_run.py.  Hook (end of tree_kem/kem.rs, outside `mod tests`):
//     #[cfg(kani)]
//     mod verif_kani;
//
// C02: "whenever a member commits, the fresh path secrets are encrypted only to public keys
// that sit in the new ratchet tree's copath resolutions (never to a removed leaf's key, never
// to a leaf added in the same commit)".
//
// The REAL `TreeKem::encrypt_copath_node_resolution`, `TreeKem::find_ciphertext_pos` and the
// non-rayon `TreeKem::encrypt_path_secrets` are run on a small ratchet tree whose occupancy is
// symbolic, with a GHOST CipherSuiteProvider that records every `hpke_seal` call (recipient
// key, info, aad, plaintext).  Node i of the tree carries the one-byte HPKE public key [i], so
// "sealed to key [i]" identifies the node.  The expected recipients come from an oracle
// written from RFC 9420 section 4.1.1 (resolution) on the symbolic occupancy flags; the
// oracle never looks at the tree value and shares no code with tree_kem::node / tree_kem::math.
//
// STATUS / LIMITS (see the sub-agent report): CBMC does not constant-propagate through the
// heap-allocated ratchet tree, so every loop of the code under test is unrolled up to the
// harness-wide unwind bound; `Zeroizing<Vec<u8>>::drop` of the 26-byte EncryptContext forces
// that bound to >= 28 for the encrypt-side harnesses.  A NON-EMPTY real `HashSet` is beyond
// CBMC (hashbrown SIMD probing) and `HashSet::contains` cannot be stubbed from this file
// (its impl has the unstable allocator parameter `A: Allocator`, which cannot be named without
// `#![feature(allocator_api)]` at the crate root): the encrypt-side harnesses therefore run
// with the EMPTY excluding set only; exclusion is covered on the receiver side
// (`find_ciphertext_pos`, which takes a slice) against the same oracle.
use super::*;
use crate::identity::basic::BasicCredential;
use crate::tree_kem::leaf_node::{LeafNode, LeafNodeSource};
use crate::tree_kem::node::{Node, Parent};
use crate::tree_kem::parent_hash::ParentHash;
use crate::tree_kem::Capabilities;
use crate::ExtensionList;
use core::cell::{Cell, RefCell};
use core::mem::ManuallyDrop;
use mls_rs_core::crypto::{
    CipherSuite, HpkeCiphertext, HpkeContextR, HpkeContextS, HpkePsk, HpkePublicKey,
    HpkeSecretKey, SignaturePublicKey,
};
use zeroize::Zeroizing;

// ---------------------------------------------------------------- stubs
/// no-op replacement for zeroize::optimization_barrier (inline asm is unsupported by Kani)
fn noop_barrier<T: ?Sized>(_val: &T) {}

/// replacement for std::hash::RandomState::new (asks the OS for random SipHash keys): fixed
/// keys.  Reached through TreeKemPublic::default() (the TreeIndex maps) and HashSet::new().
fn fixed_random_state() -> std::hash::RandomState {
    unsafe { core::mem::transmute::<[u64; 2], std::hash::RandomState>([0u64; 2]) }
}

// The contracts attached to tree_kem::math (C20) are compiled into every caller; their
// oracle walks the MAXIMAL tree (up to 32 loop iterations per call).  They are proved by the
// C20 harnesses and are not what these harnesses check: the oracle is cut out here (same
// stubs as group/secret_tree/verif_kani.rs) so that the harness-wide unwind bound stays small.
fn no_oracle_3(_x: u64, _r: u64, _right: bool) -> bool {
    true
}
fn no_oracle_1(x: u64) -> bool {
    x % 2 == 0
}
fn no_oracle_ps(_x: u64, _n: u64, _r: Option<(u64, u64)>) -> bool {
    true
}

// ---------------------------------------------------------------- ghost provider
#[derive(Debug)]
struct GhostError;

impl core::fmt::Display for GhostError {
    fn fmt(&self, f: &mut core::fmt::Formatter<'_>) -> core::fmt::Result {
        f.write_str("ghost")
    }
}

impl std::error::Error for GhostError {}

impl mls_rs_core::error::IntoAnyError for GhostError {
    // avoids format!() in the default into_any_error
    fn into_dyn_error(self) -> Result<std::boxed::Box<dyn std::error::Error + Send + Sync>, Self> {
        Ok(std::boxed::Box::new(self))
    }
}

struct NoCtx;

impl HpkeContextS for NoCtx {
    type Error = GhostError;
    fn seal(&mut self, _aad: Option<&[u8]>, _data: &[u8]) -> Result<Vec<u8>, GhostError> {
        unreachable!()
    }
    fn export(&self, _c: &[u8], _len: usize) -> Result<Zeroizing<Vec<u8>>, GhostError> {
        unreachable!()
    }
}

impl HpkeContextR for NoCtx {
    type Error = GhostError;
    fn open(&mut self, _aad: Option<&[u8]>, _ct: &[u8]) -> Result<Zeroizing<Vec<u8>>, GhostError> {
        unreachable!()
    }
    fn export(&self, _c: &[u8], _len: usize) -> Result<Zeroizing<Vec<u8>>, GhostError> {
        unreachable!()
    }
}

/// length of the context bytes and of the path secret used by the harnesses
const CTX_LEN: usize = 2;
const SECRET_LEN: usize = 2;
/// "MLS 1.0 UpdatePathNode"
const LABEL: [u8; 22] = [
    0x4d, 0x4c, 0x53, 0x20, 0x31, 0x2e, 0x30, 0x20, 0x55, 0x70, 0x64, 0x61, 0x74, 0x65, 0x50, 0x61,
    0x74, 0x68, 0x4e, 0x6f, 0x64, 0x65,
];
/// RFC 9420 section 5.1.3: EncryptContext = opaque label<V> = "MLS 1.0 " + Label; opaque context<V>
const INFO_LEN: usize = 1 + 22 + 1 + CTX_LEN;
const MAX_SEALS: usize = 8;

/// One recorded hpke_seal call (fixed arrays: no heap, no drop glue).  The harness keys and
/// secrets have fixed lengths; any other length fails an assertion in `hpke_seal`.
#[derive(Clone, Copy)]
struct Seal {
    key: u8,
    info: [u8; INFO_LEN],
    aad_none: bool,
    pt: [u8; SECRET_LEN],
}

/// Only `hpke_seal` is allowed; every other provider method is `unreachable!` (the proof
/// fails if the code under test calls it).  Call k (k = 0, 1, ..) answers with the ciphertext
/// { kem_output: [k + 1], ciphertext: [recipient key byte] }.
struct Ghost {
    trace: RefCell<[Seal; MAX_SEALS]>,
    n: Cell<usize>,
    /// index of the call that fails (the failing call is still recorded)
    fail_at: Option<usize>,
}

// the trait requires Send + Sync; the harnesses are single-threaded
unsafe impl Sync for Ghost {}

impl Ghost {
    fn new(fail_at: Option<usize>) -> Self {
        let empty = Seal { key: 0, info: [0; INFO_LEN], aad_none: false, pt: [0; SECRET_LEN] };
        Ghost { trace: RefCell::new([empty; MAX_SEALS]), n: Cell::new(0), fail_at }
    }

    fn calls(&self) -> usize {
        self.n.get()
    }

    fn seal(&self, i: usize) -> Seal {
        assert!(i < self.n.get());
        self.trace.borrow()[i]
    }
}

impl CipherSuiteProvider for Ghost {
    type Error = GhostError;
    type HpkeContextS = NoCtx;
    type HpkeContextR = NoCtx;

    fn cipher_suite(&self) -> CipherSuite {
        unreachable!()
    }
    fn hash(&self, _data: &[u8]) -> Result<Vec<u8>, GhostError> {
        unreachable!()
    }
    fn mac(&self, _key: &[u8], _data: &[u8]) -> Result<Vec<u8>, GhostError> {
        unreachable!()
    }
    fn aead_seal(
        &self,
        _key: &[u8],
        _data: &[u8],
        _aad: Option<&[u8]>,
        _nonce: &[u8],
    ) -> Result<Vec<u8>, GhostError> {
        unreachable!()
    }
    fn aead_open(
        &self,
        _key: &[u8],
        _ciphertext: &[u8],
        _aad: Option<&[u8]>,
        _nonce: &[u8],
    ) -> Result<Zeroizing<Vec<u8>>, GhostError> {
        unreachable!()
    }
    fn aead_key_size(&self) -> usize {
        unreachable!()
    }
    fn aead_nonce_size(&self) -> usize {
        unreachable!()
    }
    fn kdf_extract(&self, _salt: &[u8], _ikm: &[u8]) -> Result<Zeroizing<Vec<u8>>, GhostError> {
        unreachable!()
    }
    fn kdf_expand(
        &self,
        _prk: &[u8],
        _info: &[u8],
        _len: usize,
    ) -> Result<Zeroizing<Vec<u8>>, GhostError> {
        unreachable!()
    }
    fn kdf_extract_size(&self) -> usize {
        unreachable!()
    }

    fn hpke_seal(
        &self,
        remote_key: &HpkePublicKey,
        info: &[u8],
        aad: Option<&[u8]>,
        pt: &[u8],
    ) -> Result<HpkeCiphertext, GhostError> {
        let idx = self.n.get();
        assert!(idx < MAX_SEALS);
        let k: &[u8] = remote_key.as_ref();
        assert!(k.len() == 1);
        assert!(info.len() == INFO_LEN);
        assert!(pt.len() == SECRET_LEN);
        let mut s = Seal { key: k[0], info: [0; INFO_LEN], aad_none: aad.is_none(), pt: [0; SECRET_LEN] };
        s.info.copy_from_slice(info);
        s.pt.copy_from_slice(pt);
        self.trace.borrow_mut()[idx] = s;
        self.n.set(idx + 1);
        if self.fail_at == Some(idx) {
            return Err(GhostError);
        }
        Ok(HpkeCiphertext { kem_output: alloc::vec![idx as u8 + 1], ciphertext: alloc::vec![k[0]] })
    }

    fn hpke_seal_psk(
        &self,
        _remote_key: &HpkePublicKey,
        _info: &[u8],
        _aad: Option<&[u8]>,
        _pt: &[u8],
        _psk: HpkePsk<'_>,
    ) -> Result<HpkeCiphertext, GhostError> {
        unreachable!()
    }
    fn hpke_open(
        &self,
        _ciphertext: &HpkeCiphertext,
        _local_secret: &HpkeSecretKey,
        _local_public: &HpkePublicKey,
        _info: &[u8],
        _aad: Option<&[u8]>,
    ) -> Result<Zeroizing<Vec<u8>>, GhostError> {
        unreachable!()
    }
    fn hpke_open_psk(
        &self,
        _ciphertext: &HpkeCiphertext,
        _local_secret: &HpkeSecretKey,
        _local_public: &HpkePublicKey,
        _info: &[u8],
        _aad: Option<&[u8]>,
        _psk: HpkePsk<'_>,
    ) -> Result<Zeroizing<Vec<u8>>, GhostError> {
        unreachable!()
    }
    fn hpke_setup_s(
        &self,
        _remote_key: &HpkePublicKey,
        _info: &[u8],
    ) -> Result<(Vec<u8>, NoCtx), GhostError> {
        unreachable!()
    }
    fn hpke_setup_r(
        &self,
        _kem_output: &[u8],
        _local_secret: &HpkeSecretKey,
        _local_public: &HpkePublicKey,
        _info: &[u8],
    ) -> Result<NoCtx, GhostError> {
        unreachable!()
    }
    fn kem_derive(&self, _ikm: &[u8]) -> Result<(HpkeSecretKey, HpkePublicKey), GhostError> {
        unreachable!()
    }
    fn kem_generate(&self) -> Result<(HpkeSecretKey, HpkePublicKey), GhostError> {
        unreachable!()
    }
    fn kem_public_key_validate(&self, _key: &HpkePublicKey) -> Result<(), GhostError> {
        unreachable!()
    }
    fn random_bytes(&self, _out: &mut [u8]) -> Result<(), GhostError> {
        unreachable!()
    }
    fn signature_key_generate(&self) -> Result<(SignatureSecretKey, SignaturePublicKey), GhostError> {
        unreachable!()
    }
    fn signature_key_derive_public(
        &self,
        _k: &SignatureSecretKey,
    ) -> Result<SignaturePublicKey, GhostError> {
        unreachable!()
    }
    fn sign(&self, _k: &SignatureSecretKey, _data: &[u8]) -> Result<Vec<u8>, GhostError> {
        unreachable!()
    }
    fn verify(&self, _k: &SignaturePublicKey, _sig: &[u8], _data: &[u8]) -> Result<(), GhostError> {
        unreachable!()
    }
}

// ---------------------------------------------------------------- symbolic ratchet tree
/// Occupancy of a tree with N node slots (N = 2 * leaves - 1, leaves a power of two):
/// `present[i]`: node i is non-blank; `um[p][l]`: leaf l is listed in parent p's
/// unmerged_leaves (only consulted for odd p and leaves below p).
#[derive(Clone, Copy)]
struct Shape<const N: usize> {
    present: [bool; N],
    um: [[bool; N]; N],
}

/// level of node x (RFC 9420 appendix C): number of trailing one bits
fn spec_level(x: u32) -> u32 {
    let mut k = 0;
    while k < 8 && (x >> k) & 1 == 1 {
        k += 1;
    }
    k
}

/// the leaves below node x are first..=last (as LEAF indices)
fn spec_leaf_range(x: u32) -> (u32, u32) {
    let k = spec_level(x);
    let half = (1u32 << k) - 1; // node distance to the outermost leaves
    ((x - half) / 2, (x + half) / 2)
}

fn leaf_node(key: u8) -> LeafNode {
    LeafNode {
        public_key: HpkePublicKey::from(alloc::vec![key]),
        signing_identity: SigningIdentity {
            signature_key: SignaturePublicKey::from(Vec::new()),
            credential: crate::identity::Credential::Basic(BasicCredential { identifier: Vec::new() }),
        },
        capabilities: Capabilities {
            protocol_versions: Vec::new(),
            cipher_suites: Vec::new(),
            extensions: Vec::new(),
            proposals: Vec::new(),
            credentials: Vec::new(),
        },
        leaf_node_source: LeafNodeSource::Update,
        extensions: ExtensionList::new(),
        signature: Vec::new(),
    }
}

/// symbolic occupancy, no unmerged leaves yet
fn any_occupancy<const N: usize>() -> Shape<N> {
    Shape { present: kani::any(), um: [[false; N]; N] }
}

/// Case split over the subsets of the two leaves `a`, `b` as unmerged leaves of parent `p`:
/// `f` runs once per subset with CONCRETE flags, so that every unmerged_leaves vector has a
/// concrete length (a Vec of symbolic length makes CBMC unroll every slice loop over it up to
/// the unwind bound).  Each case ends its path, so this must be the harness's last statement.
fn for_each_unmerged_pair<const N: usize>(
    shape: &Shape<N>,
    p: usize,
    a: usize,
    b: usize,
    mut f: impl FnMut(&Shape<N>),
) {
    let sel: u8 = kani::any();
    kani::assume(sel < 4);
    let mut k = 0u8;
    while k < 4 {
        if sel == k {
            let mut s = *shape;
            s.um[p][a] = k & 1 == 1;
            s.um[p][b] = k & 2 == 2;
            f(&s);
            kani::assume(false);
        }
        k += 1;
    }
}

/// the ratchet tree described by `shape`; node i has public key [i]
fn build_nodes<const N: usize>(shape: &Shape<N>) -> Vec<Option<Node>> {
    let mut v: Vec<Option<Node>> = Vec::with_capacity(N);
    let mut i = 0;
    while i < N {
        let n = if !shape.present[i] {
            None
        } else if i % 2 == 0 {
            Some(Node::Leaf(leaf_node(i as u8)))
        } else {
            let (first, last) = spec_leaf_range(i as u32);
            let mut unmerged = Vec::with_capacity(N / 2 + 1);
            let mut l = first;
            while l <= last {
                if shape.um[i][l as usize] {
                    unmerged.push(LeafIndex::unchecked(l));
                }
                l += 1;
            }
            Some(Node::Parent(Parent {
                public_key: HpkePublicKey::from(alloc::vec![i as u8]),
                parent_hash: ParentHash::empty(),
                unmerged_leaves: unmerged,
            }))
        };
        v.push(n);
        i += 1;
    }
    v
}

fn build_public<const N: usize>(shape: &Shape<N>) -> TreeKemPublic {
    let mut t = TreeKemPublic::new();
    t.nodes = build_nodes(shape).into();
    t
}

fn build_private() -> TreeKemPrivate {
    TreeKemPrivate { self_index: LeafIndex::unchecked(0), secret_keys: Vec::new() }
}

// ---------------------------------------------------------------- oracle (RFC 9420 4.1.1)
const CAP: usize = 8;

#[derive(Clone, Copy)]
struct List {
    v: [u32; CAP],
    n: usize,
}

impl List {
    fn new() -> Self {
        List { v: [0; CAP], n: 0 }
    }
    fn push(&mut self, x: u32) {
        assert!(self.n < CAP);
        self.v[self.n] = x;
        self.n += 1;
    }
}

/// RFC 9420 section 4.1.1:
///  * the resolution of a non-blank node comprises the node itself, followed by its list of
///    unmerged leaves, if any;
///  * the resolution of a blank leaf node is the empty list;
///  * the resolution of a blank intermediate node is the result of concatenating the
///    resolution of its left child with the resolution of its right child, in that order.
fn spec_resolution<const N: usize>(shape: &Shape<N>, x: u32, out: &mut List) {
    let k = spec_level(x);
    if shape.present[x as usize] {
        out.push(x);
        if k > 0 {
            let (first, last) = spec_leaf_range(x);
            let mut l = first;
            while l <= last {
                if shape.um[x as usize][l as usize] {
                    out.push(2 * l);
                }
                l += 1;
            }
        }
    } else if k > 0 {
        let d = 1u32 << (k - 1);
        spec_resolution(shape, x - d, out);
        spec_resolution(shape, x + d, out);
    }
}

/// parent of node x in a tree with N node slots; None for the root (N / 2)
fn spec_parent<const N: usize>(x: u32) -> Option<u32> {
    if x as usize == N / 2 {
        return None;
    }
    let k = spec_level(x);
    // x is a left child iff the bit above its level pattern is 0
    Some(if (x >> (k + 1)) & 1 == 0 { x + (1 << k) } else { x - (1 << k) })
}

fn expected_info(ctx: &[u8; CTX_LEN]) -> [u8; INFO_LEN] {
    let mut o = [0u8; INFO_LEN];
    o[0] = 22;
    o[1..23].copy_from_slice(&LABEL);
    o[23] = CTX_LEN as u8;
    o[24..].copy_from_slice(ctx);
    o
}

/// resolution of `c` minus the nodes of the mask, in order
fn expected_recipients<const N: usize>(shape: &Shape<N>, c: u32, mask: u32) -> List {
    let mut reso = List::new();
    spec_resolution(shape, c, &mut reso);
    let mut want = List::new();
    let mut i = 0;
    while i < CAP {
        if i < reso.n && (mask >> reso.v[i]) & 1 == 0 {
            want.push(reso.v[i]);
        }
        i += 1;
    }
    want
}

/// Every recorded seal i (i < calls) went to the key of want[i] with the expected info, no
/// aad and the path secret as plaintext.
fn seals_are_prefix_of(p: &Ghost, want: &List, info: &[u8; INFO_LEN], secret: &[u8; SECRET_LEN]) -> bool {
    if p.calls() > want.n {
        return false;
    }
    let mut i = 0;
    while i < CAP {
        if i < p.calls() {
            let s = p.seal(i);
            if s.key as u32 != want.v[i] || s.info != *info || !s.aad_none || s.pt != *secret {
                return false;
            }
        }
        i += 1;
    }
    true
}

// ---------------------------------------------------------------- 1. encrypt_copath_node_resolution
/// For EVERY occupancy of the N node slots, every choice of unmerged leaves below each parent,
/// the given copath node c, the given excluding set (None = empty), symbolic context and
/// secret bytes:
///  * hpke_seal is called exactly for the nodes of resolution(c) that are not excluded, in
///    resolution order, each with the key of that node, info = EncryptContext("UpdatePathNode",
///    context), no aad, plaintext = path secret (on an error path: for a prefix of that list);
///    so no seal goes to an excluded node and none to a blank node;
///  * Ok  <==>  no listed, non-excluded unmerged leaf is blank, c is not the root and c's
///    parent is a non-blank parent node; then the k-th ciphertext is the answer to the k-th
///    seal and public_key is the parent's key;
///  * Err is UnexpectedEmptyNode (first blank recipient; nothing is sealed after it) or
///    ExpectedNode.
fn resolution_recipients_case<const N: usize>(shape: &Shape<N>, c: u32, excl: Option<u32>) {
    let shape = *shape;
    let mask: u32 = match excl {
        Some(x) => 1 << x,
        None => 0,
    };
    let ctx: [u8; CTX_LEN] = kani::any();
    let secret: [u8; SECRET_LEN] = kani::any();

    let mut public = ManuallyDrop::new(build_public(&shape));
    let mut private = ManuallyDrop::new(build_private());
    let path_secret = ManuallyDrop::new(PathSecret::from(secret.to_vec()));
    let mut excluding: ManuallyDrop<HashSet<NodeIndex>> = ManuallyDrop::new(HashSet::new());
    if let Some(x) = excl {
        excluding.insert(x);
    }
    let p = Ghost::new(None);

    let kem = TreeKem::new(&mut public, &mut private);
    let r = ManuallyDrop::new(kem.encrypt_copath_node_resolution(&p, &path_secret, c, &ctx, &excluding));

    let want = expected_recipients(&shape, c, mask);
    let info = expected_info(&ctx);
    assert!(seals_are_prefix_of(&p, &want, &info, &secret));

    // first recipient that is blank (an unmerged leaf that is listed but blank)
    let mut first_blank: Option<usize> = None;
    let mut i = 0;
    while i < CAP {
        if i < want.n && first_blank.is_none() && !shape.present[want.v[i] as usize] {
            first_blank = Some(i);
        }
        i += 1;
    }
    let parent = spec_parent::<N>(c);
    let parent_ok = match parent {
        Some(q) => shape.present[q as usize],
        None => false,
    };

    match &*r {
        Ok(node) => {
            assert!(first_blank.is_none() && parent_ok);
            assert!(p.calls() == want.n);
            assert!(node.encrypted_path_secret.len() == want.n);
            let mut i = 0;
            while i < CAP {
                if i < want.n {
                    let ct = &node.encrypted_path_secret[i];
                    assert!(ct.kem_output.len() == 1 && ct.kem_output[0] == i as u8 + 1);
                    assert!(ct.ciphertext.len() == 1 && ct.ciphertext[0] as u32 == want.v[i]);
                    // never to an excluded node, never to a blank node
                    assert!((mask >> want.v[i]) & 1 == 0 && shape.present[want.v[i] as usize]);
                }
                i += 1;
            }
            let k: &[u8] = node.public_key.as_ref();
            assert!(k.len() == 1 && k[0] as u32 == parent.unwrap());
        }
        Err(e) => match first_blank {
            Some(b) => {
                assert!(matches!(e, MlsError::UnexpectedEmptyNode));
                assert!(p.calls() == b);
            }
            None => {
                assert!(!parent_ok);
                assert!(matches!(e, MlsError::ExpectedNode));
                assert!(p.calls() == want.n);
            }
        },
    }

    kani::cover!(r.is_ok() && want.n == 0);
    kani::cover!(r.is_ok() && want.n >= 2);
    kani::cover!(r.is_ok() && want.n >= 1 && mask != 0);
    kani::cover!(r.is_err() && first_blank.is_some());
    kani::cover!(r.is_err() && first_blank.is_none());
}

// unwind 28: zeroize clears the 26-byte EncryptContext encoding byte by byte
macro_rules! resolution_recipients_harness {
    ($($name:ident: $n:literal, $c:literal),* $(,)?) => { $(
        #[kani::proof]
        #[kani::unwind(28)]
        #[kani::stub(zeroize::optimization_barrier, noop_barrier)]
        #[kani::stub(std::hash::RandomState::new, fixed_random_state)]
        #[kani::stub(crate::tree_kem::math::verif_kani::spec_child_ok, no_oracle_3)]
        #[kani::stub(crate::tree_kem::math::verif_kani::spec_is_leaf, no_oracle_1)]
        #[kani::stub(crate::tree_kem::math::verif_kani::spec_parent_sibling_ok, no_oracle_ps)]
        fn $name() {
            let shape: Shape<$n> = any_occupancy();
            resolution_recipients_case::<$n>(&shape, $c, None);
        }
    )* };
}

resolution_recipients_harness!(
    c02_resolution_recipients_c0_bounded_2leaves: 3, 0,
    c02_resolution_recipients_c2_bounded_2leaves: 3, 2,
);

// ---------------------------------------------------------------- 2. find_ciphertext_pos
fn ciphertext_pos_case<const N: usize>(shape: &Shape<N>, c: u32) {
    let shape = *shape;
    // excluded LEAVES (receiver side: &[LeafIndex]); committer side: node index 2 * leaf
    let leaves = (N + 1) / 2;
    let e: u32 = kani::any();
    let with_e: bool = kani::any();
    kani::assume((e as usize) < leaves);
    let excl_leaves = ManuallyDrop::new(if with_e {
        alloc::vec![LeafIndex::unchecked(e)]
    } else {
        Vec::new()
    });
    let mask: u32 = if with_e { 1 << (2 * e) } else { 0 };

    let mut public = ManuallyDrop::new(build_public(&shape));
    let mut private = ManuallyDrop::new(build_private());
    let kem = TreeKem::new(&mut public, &mut private);

    // the list the committer seals to (harness 1), in order
    let want = expected_recipients(&shape, c, mask);

    let r: u32 = kani::any();
    kani::assume((r as usize) < N);
    let got = ManuallyDrop::new(kem.find_ciphertext_pos(c, r, &excl_leaves));

    // first position of r in the committer's list
    let mut pos: Option<usize> = None;
    let mut i = 0;
    while i < CAP {
        if i < want.n && pos.is_none() && want.v[i] == r {
            pos = Some(i);
        }
        i += 1;
    }
    match &*got {
        Ok(k) => assert!(pos == Some(*k)),
        Err(e) => {
            assert!(pos.is_none());
            assert!(matches!(e, MlsError::UpdateErrorNoSecretKey));
        }
    }
    kani::cover!(got.is_ok() && pos == Some(0));
    kani::cover!(got.is_ok() && pos == Some(1) && with_e);
    kani::cover!(got.is_err() && with_e && r == 2 * e);
}

#[kani::proof]
#[kani::unwind(10)]
#[kani::stub(std::hash::RandomState::new, fixed_random_state)]
#[kani::stub(crate::tree_kem::math::verif_kani::spec_child_ok, no_oracle_3)]
#[kani::stub(crate::tree_kem::math::verif_kani::spec_is_leaf, no_oracle_1)]
#[kani::stub(crate::tree_kem::math::verif_kani::spec_parent_sibling_ok, no_oracle_ps)]
fn c02_ciphertext_pos_agrees_c1_bounded_4leaves() {
    let mut shape: Shape<7> = any_occupancy();
    shape.um[1][0] = true;
    shape.um[1][1] = true;
    ciphertext_pos_case::<7>(&shape, 1);
}

#[kani::proof]
#[kani::unwind(10)]
#[kani::stub(std::hash::RandomState::new, fixed_random_state)]
#[kani::stub(crate::tree_kem::math::verif_kani::spec_child_ok, no_oracle_3)]
#[kani::stub(crate::tree_kem::math::verif_kani::spec_is_leaf, no_oracle_1)]
#[kani::stub(crate::tree_kem::math::verif_kani::spec_parent_sibling_ok, no_oracle_ps)]
fn c02_ciphertext_pos_agrees_c1_bounded_2leaves() {
    let mut shape: Shape<3> = any_occupancy();
    shape.um[1][1] = true;
    ciphertext_pos_case::<3>(&shape, 1);
}
