// Verification-only module (cfg(kani)); copied into the scratch copy of /repo by
// /verif/engine/kani_run.py.
//
// C13 (PSK secret chain) and C18 (the chain binds value, id, nonce, index, count and order
// of every PSK).  RFC 9420 section 8.4:
//
//   struct { PSKType psktype;                       // external(1), resumption(2)
//            select (psktype) {
//              case external:   opaque psk_id<V>;
//              case resumption: ResumptionPSKUsage usage;   // application(1) reinit(2) branch(3)
//                               opaque psk_group_id<V>; uint64 psk_epoch; };
//            opaque psk_nonce<V>; } PreSharedKeyID;
//   struct { PreSharedKeyID id; uint16 index; uint16 count; } PSKLabel;
//
//   psk_extracted_[i] = KDF.Extract(0, psk_[i])
//   psk_input_[i]     = ExpandWithLabel(psk_extracted_[i], "derived psk", PSKLabel, KDF.Nh)
//   psk_secret_[0]    = 0
//   psk_secret_[i]    = KDF.Extract(psk_input_[i-1], psk_secret_[i-1])
//
// (0 = KDF.Nh zero bytes; Extract(salt, ikm)).  The real PskSecret::calculate runs against
// the ghost provider of key_schedule/verif_kani.rs; the expected bytes come from the
// hand-written oracle below and the shared rfc_* helpers (no mls-rs-codec).
use super::*;
use crate::psk::{ExternalPskId, JustPreSharedKeyID, PskGroupId, PskNonce, ResumptionPSKUsage, ResumptionPsk};

crate::c13_ghost_support!();

fn any_id() -> PreSharedKeyID {
    let key_id = if kani::any() {
        JustPreSharedKeyID::External(ExternalPskId::new(any_bytes::<2>()))
    } else {
        let u: u8 = kani::any();
        kani::assume(u < 3);
        let usage = match u {
            0 => ResumptionPSKUsage::Application,
            1 => ResumptionPSKUsage::Reinit,
            _ => ResumptionPSKUsage::Branch,
        };
        JustPreSharedKeyID::Resumption(ResumptionPsk {
            usage,
            psk_group_id: PskGroupId(any_bytes::<2>()),
            psk_epoch: kani::any(),
        })
    };
    PreSharedKeyID { key_id, psk_nonce: PskNonce(any_bytes::<2>()) }
}

fn any_input() -> PskSecretInput {
    PskSecretInput { id: any_id(), psk: PreSharedKey::new(any_bytes::<2>()) }
}

fn rfc_psk_label(id: &PreSharedKeyID, index: u16, count: u16) -> Vec<u8> {
    let mut o = Vec::with_capacity(48);
    match &id.key_id {
        JustPreSharedKeyID::External(e) => {
            o.push(1);
            rfc_opaque(&mut o, e.as_ref());
        }
        JustPreSharedKeyID::Resumption(r) => {
            o.push(2);
            o.push(match r.usage {
                ResumptionPSKUsage::Application => 1,
                ResumptionPSKUsage::Reinit => 2,
                ResumptionPSKUsage::Branch => 3,
            });
            rfc_opaque(&mut o, &r.psk_group_id.0);
            rfc_u64(&mut o, r.psk_epoch);
        }
    }
    rfc_opaque(&mut o, &id.psk_nonce.0);
    rfc_u16(&mut o, index);
    rfc_u16(&mut o, count);
    o
}

/// calls 3i, 3i+1, 3i+2 of the trace are step i of the chain; `prev` is psk_secret_[i]
fn check_step(p: &GhostProvider, i: usize, n: usize, inp: &PskSecretInput, prev: &[u8]) {
    let zero = [0u8; NH];
    let c = 3 * i;
    // psk_extracted_[i] = Extract(salt = 0, ikm = psk_[i])                      -> tag c+1
    assert!(p.is(c, Op::Extract, &zero, inp.psk.raw_value(), 0));
    // psk_input_[i] = ExpandWithLabel(psk_extracted_[i], "derived psk", PSKLabel) -> tag c+2
    let ctx = rfc_psk_label(&inp.id, i as u16, n as u16);
    assert!(p.is(
        c + 1,
        Op::Expand,
        &out(c as u8 + 1, NH),
        &rfc_kdf_label(NH as u16, b"derived psk", &ctx),
        NH
    ));
    // psk_secret_[i+1] = Extract(salt = psk_input_[i], ikm = psk_secret_[i])      -> tag c+3
    assert!(p.is(c + 2, Op::Extract, &out(c as u8 + 2, NH), prev, 0));
}

#[kani::proof]
#[kani::stub(zeroize::optimization_barrier, noop_barrier)]
#[kani::unwind(12)]
fn c13_psk_secret_0() {
    let p = GhostProvider::new();
    let r = PskSecret::calculate(&[], &p);
    assert!(r.is_ok());
    let s = r.ok().unwrap();
    kani::cover!(true);
    assert!(p.calls() == 0);
    assert!(is_out(&s, 0, NH)); // psk_secret_[0] = 0
    // PskSecret::new is the same all-zero value
    assert!(is_out(&PskSecret::new(&p), 0, NH));
}

#[kani::proof]
#[kani::stub(zeroize::optimization_barrier, noop_barrier)]
#[kani::unwind(12)]
fn c13_psk_secret_1_bounded_2() {
    let p = GhostProvider::new();
    let a = any_input();
    let input = [a.clone()];
    let r = PskSecret::calculate(&input, &p);
    assert!(r.is_ok());
    let s = r.ok().unwrap();
    kani::cover!(matches!(a.id.key_id, JustPreSharedKeyID::External(_)));
    kani::cover!(matches!(a.id.key_id, JustPreSharedKeyID::Resumption(_)));
    assert!(p.calls() == 3);
    check_step(&p, 0, 1, &a, &[0u8; NH]);
    assert!(is_out(&s, 3, NH));
}

#[kani::proof]
#[kani::stub(zeroize::optimization_barrier, noop_barrier)]
#[kani::unwind(12)]
fn c13_psk_secret_2_bounded_2() {
    let p = GhostProvider::new();
    let a = any_input();
    let b = any_input();
    let input = [a.clone(), b.clone()];
    let r = PskSecret::calculate(&input, &p);
    assert!(r.is_ok());
    let s = r.ok().unwrap();
    kani::cover!(
        matches!(a.id.key_id, JustPreSharedKeyID::External(_))
            && matches!(b.id.key_id, JustPreSharedKeyID::Resumption(_))
    );
    assert!(p.calls() == 6);
    check_step(&p, 0, 2, &a, &[0u8; NH]);
    check_step(&p, 1, 2, &b, &out(3, NH));
    assert!(is_out(&s, 6, NH));
}

// a provider failure at any step is reported as CryptoProviderError and stops the chain
#[kani::proof]
#[kani::stub(zeroize::optimization_barrier, noop_barrier)]
#[kani::unwind(12)]
fn c13_psk_secret_provider_error_bounded_2() {
    let at: usize = kani::any();
    kani::assume(at < 6);
    let p = GhostProvider::failing_at(at);
    let input = [any_input(), any_input()];
    let r = PskSecret::calculate(&input, &p);
    kani::cover!(at == 5);
    assert!(is_provider_error(&r));
    assert!(p.calls() == at + 1);
    core::mem::forget(r);
}

// ------------------------------------------------------------------ C18
// Order: the KDF inputs of [A, B] and of [B, A] coincide only if A and B are the same PSK
// (same id, nonce and value).  In the ghost model distinct inputs are distinct terms, so
// swapping two different PSKs changes psk_secret and with it every secret of the epoch.
#[kani::proof]
#[kani::stub(zeroize::optimization_barrier, noop_barrier)]
#[kani::unwind(12)]
fn c18_psk_order_bounded_2() {
    let a = any_input();
    let b = any_input();
    let p = GhostProvider::new();
    let q = GhostProvider::new();
    let r1 = PskSecret::calculate(&[a.clone(), b.clone()], &p);
    let r2 = PskSecret::calculate(&[b.clone(), a.clone()], &q);
    assert!(r1.is_ok() && r2.is_ok());
    let same = p.same_trace(&q);
    kani::cover!(same);
    kani::cover!(!same);
    if same {
        assert!(a.id == b.id);
        assert!(bytes_eq(a.psk.raw_value(), b.psk.raw_value()));
    }
}

// Value, id, nonce, index, count: the real encoder of the PSKLabel that enters the chain is
// injective, i.e. two labels with the same bytes have the same id (type, id / usage, group,
// epoch, nonce), index and count.
#[kani::proof]
#[kani::stub(zeroize::optimization_barrier, noop_barrier)]
#[kani::unwind(12)]
fn c18_psk_label_injective_bounded_2() {
    let (ia, ib) = (any_id(), any_id());
    let (xa, xb): (u16, u16) = (kani::any(), kani::any());
    let (ca, cb): (u16, u16) = (kani::any(), kani::any());
    let la = PSKLabel { id: &ia, index: xa, count: ca }.mls_encode_to_vec();
    let lb = PSKLabel { id: &ib, index: xb, count: cb }.mls_encode_to_vec();
    assert!(la.is_ok() && lb.is_ok());
    let (la, lb) = (la.ok().unwrap(), lb.ok().unwrap());
    // the real encoding is the RFC encoding
    assert!(bytes_eq(&la, &rfc_psk_label(&ia, xa, ca)));
    let same = bytes_eq(&la, &lb);
    kani::cover!(same);
    if same {
        assert!(ia == ib && xa == xb && ca == cb);
    }
}
