// Verification-only module (cfg(kani)); copied into the scratch copy of /repo by
// /verif/engine/kani_run.py.
//
// C13 (PSK secret chain) and C18 (the chain binds value, id, nonce, index, count and order
// of every PSK).  RFC 9420 section 8.4:
//
//   struct { PSKType psktype;                       // external(1), resumption(2)
//            select (psktype) {
//              case external:   opaque psk_id<V>;
//              case resumption: ResumptionPSKUsage usage;   // application(1) reinit(2) branch(3)
//                               opaque psk_group_id<V>; uint64 psk_epoch; };
//            opaque psk_nonce<V>; } PreSharedKeyID;
//   struct { PreSharedKeyID id; uint16 index; uint16 count; } PSKLabel;
//
//   psk_extracted_[i] = KDF.Extract(0, psk_[i])
//   psk_input_[i]     = ExpandWithLabel(psk_extracted_[i], "derived psk", PSKLabel, KDF.Nh)
//   psk_secret_[0]    = 0
//   psk_secret_[i]    = KDF.Extract(psk_input_[i-1], psk_secret_[i-1])
//
// (0 = KDF.Nh zero bytes; Extract(salt, ikm)).  The real PskSecret::calculate runs against
// the ghost provider of key_schedule/verif_kani.rs; the expected bytes come from the
// hand-written oracle below and the shared rfc_* helpers (no mls-rs-codec).
use super::*;
use crate::psk::{ExternalPskId, JustPreSharedKeyID, PskGroupId, PskNonce, ResumptionPSKUsage, ResumptionPsk};

crate::c13_ghost_support!();

/// PreSharedKeyID of the given type with the given id (external: psk_id, resumption:
/// psk_group_id) and nonce; usage and epoch of a resumption id are symbolic
fn make_id(resumption: bool, id: &[u8], nonce: &[u8]) -> PreSharedKeyID {
    let key_id = if resumption {
        let u: u8 = kani::any();
        kani::assume(u < 3);
        let usage = match u {
            0 => ResumptionPSKUsage::Application,
            1 => ResumptionPSKUsage::Reinit,
            _ => ResumptionPSKUsage::Branch,
        };
        JustPreSharedKeyID::Resumption(ResumptionPsk {
            usage,
            psk_group_id: PskGroupId(id.to_vec()),
            psk_epoch: kani::any(),
        })
    } else {
        JustPreSharedKeyID::External(ExternalPskId::new(id.to_vec()))
    };
    PreSharedKeyID { key_id, psk_nonce: PskNonce(nonce.to_vec()) }
}

/// symbolic PSK with a 1-byte id and a 1-byte nonce, value of 0..=2 bytes
fn small_input(resumption: bool) -> PskSecretInput {
    let id: [u8; 1] = kani::any();
    let nonce: [u8; 1] = kani::any();
    PskSecretInput { id: make_id(resumption, &id, &nonce), psk: PreSharedKey::new(any_bytes::<2>()) }
}

fn rfc_psk_label(id: &PreSharedKeyID, index: u16, count: u16) -> Vec<u8> {
    let mut o = Vec::with_capacity(48);
    match &id.key_id {
        JustPreSharedKeyID::External(e) => {
            o.push(1);
            rfc_opaque(&mut o, e.as_ref());
        }
        JustPreSharedKeyID::Resumption(r) => {
            o.push(2);
            o.push(match r.usage {
                ResumptionPSKUsage::Application => 1,
                ResumptionPSKUsage::Reinit => 2,
                ResumptionPSKUsage::Branch => 3,
            });
            rfc_opaque(&mut o, &r.psk_group_id.0);
            rfc_u64(&mut o, r.psk_epoch);
        }
    }
    rfc_opaque(&mut o, &id.psk_nonce.0);
    rfc_u16(&mut o, index);
    rfc_u16(&mut o, count);
    o
}

/// calls 3i, 3i+1, 3i+2 of the trace are step i of the chain; `prev` is psk_secret_[i]
fn check_step(p: &GhostProvider, i: usize, n: usize, inp: &PskSecretInput, prev: &[u8]) {
    let zero = [0u8; NH];
    let c = 3 * i;
    // psk_extracted_[i] = Extract(salt = 0, ikm = psk_[i])                      -> tag c+1
    assert!(p.is(c, Op::Extract, &zero, inp.psk.raw_value(), 0));
    // psk_input_[i] = ExpandWithLabel(psk_extracted_[i], "derived psk", PSKLabel) -> tag c+2
    let ctx = rfc_psk_label(&inp.id, i as u16, n as u16);
    assert!(p.is(
        c + 1,
        Op::Expand,
        &out(c as u8 + 1, NH),
        &rfc_kdf_label(NH as u16, b"derived psk", &ctx),
        NH
    ));
    // psk_secret_[i+1] = Extract(salt = psk_input_[i], ikm = psk_secret_[i])      -> tag c+3
    assert!(p.is(c + 2, Op::Extract, &out(c as u8 + 2, NH), prev, 0));
}

#[kani::proof]
#[kani::stub(zeroize::optimization_barrier, noop_barrier)]
#[kani::unwind(82)]
fn c13_psk_secret_0() {
    let p = GhostProvider::new();
    let r = PskSecret::calculate(&[], &p);
    assert!(r.is_ok());
    let s = r.ok().unwrap();
    assert!(p.calls() == 0);
    assert!(is_out(&s, 0, NH)); // psk_secret_[0] = 0
    // PskSecret::new is the same all-zero value
    assert!(is_out(&PskSecret::new(&p), 0, NH));
}

// the real PSKLabel encoder against the oracle: both types (one harness each), id / group id
// and nonce of every length 0..=2, all values symbolic
fn psk_label_case(resumption: bool, id: &[u8], nonce: &[u8]) {
    let pid = make_id(resumption, id, nonce);
    let (index, count): (u16, u16) = (kani::any(), kani::any());
    let l = PSKLabel { id: &pid, index, count }.mls_encode_to_vec();
    assert!(l.is_ok());
    assert!(bytes_eq(&l.ok().unwrap(), &rfc_psk_label(&pid, index, count)));
    core::mem::forget(pid);
}

#[kani::proof]
#[kani::unwind(82)]
fn c13_psk_label_encoding_external_bounded_2() {
    let i: [u8; 2] = kani::any();
    let n: [u8; 2] = kani::any();
    for_each_prefix(&i, |id| for_each_prefix(&n, |nonce| psk_label_case(false, id, nonce)));
}

// DISABLED: every harness that builds a resumption PreSharedKeyID (symbolic usage and 64-bit
// epoch) was stopped after 10-13 minutes without a verdict.
#[cfg(any())]
#[kani::proof]
#[kani::unwind(82)]
fn c13_psk_label_encoding_resumption_bounded_2() {
    let i: [u8; 2] = kani::any();
    let n: [u8; 2] = kani::any();
    for_each_prefix(&i, |id| for_each_prefix(&n, |nonce| psk_label_case(true, id, nonce)));
}

// one PSK (1-byte id, 1-byte nonce, value of 0..=2 bytes), both types
fn psk_secret_1_case(resumption: bool) {
    let p = GhostProvider::new();
    let a = small_input(resumption);
    let input = [a.clone()];
    let r = PskSecret::calculate(&input, &p);
    assert!(r.is_ok());
    let s = r.ok().unwrap();
    assert!(p.calls() == 3);
    check_step(&p, 0, 1, &a, &[0u8; NH]);
    assert!(is_out(&s, 3, NH));
    core::mem::forget((input, a));
}

#[kani::proof]
#[kani::stub(zeroize::optimization_barrier, noop_barrier)]
#[kani::unwind(82)]
fn c13_psk_secret_1_external_bounded_1() {
    psk_secret_1_case(false);
}

#[cfg(any())] // DISABLED, see above
#[kani::proof]
#[kani::stub(zeroize::optimization_barrier, noop_barrier)]
#[kani::unwind(82)]
fn c13_psk_secret_1_resumption_bounded_1() {
    psk_secret_1_case(true);
}

// two PSKs, every combination of types (one harness each); ids and nonces of 1 byte, values
// of 0..=2 bytes
fn psk_secret_2_case(ra: bool, rb: bool) {
    let p = GhostProvider::new();
    let a = small_input(ra);
    let b = small_input(rb);
    let input = [a.clone(), b.clone()];
    let r = PskSecret::calculate(&input, &p);
    assert!(r.is_ok());
    let s = r.ok().unwrap();
    assert!(p.calls() == 6);
    check_step(&p, 0, 2, &a, &[0u8; NH]);
    check_step(&p, 1, 2, &b, &out(3, NH));
    assert!(is_out(&s, 6, NH));
    core::mem::forget((input, a, b));
}

// Order (C18): the KDF inputs of [A, B] and of [B, A] coincide only if A and B are the same
// PSK (same id, nonce and value).  In the ghost model distinct inputs are distinct terms, so
// swapping two different PSKs changes psk_secret and with it every secret of the epoch.
fn psk_order_case(ra: bool, rb: bool) {
    let a = small_input(ra);
    let b = small_input(rb);
    let p = GhostProvider::new();
    let q = GhostProvider::new();
    let ab = [a.clone(), b.clone()];
    let ba = [b.clone(), a.clone()];
    let r1 = PskSecret::calculate(&ab, &p);
    let r2 = PskSecret::calculate(&ba, &q);
    assert!(r1.is_ok() && r2.is_ok());
    if p.same_trace(&q) {
        assert!(a.id == b.id);
        assert!(bytes_eq(a.psk.raw_value(), b.psk.raw_value()));
    }
    core::mem::forget((r1, r2, ab, ba, a, b));
}

// Id, nonce, index, count (C18): the real PSKLabel encoder is injective: two labels with the
// same bytes have the same id (type, id / usage, group, epoch, nonce), index and count.  Ids
// of every length 0..=1, nonces of 1 byte.
fn psk_label_injective_case(ra: bool, rb: bool) {
    let b1: [u8; 1] = kani::any();
    let b2: [u8; 1] = kani::any();
    let b3: [u8; 1] = kani::any();
    let b4: [u8; 1] = kani::any();
    let (xa, xb): (u16, u16) = (kani::any(), kani::any());
    let (ca, cb): (u16, u16) = (kani::any(), kani::any());
    for_each_prefix(&b1, |id_a| {
        for_each_prefix(&b3, |id_b| {
            let ia = make_id(ra, id_a, &b2);
            let ib = make_id(rb, id_b, &b4);
            let la = PSKLabel { id: &ia, index: xa, count: ca }.mls_encode_to_vec();
            let lb = PSKLabel { id: &ib, index: xb, count: cb }.mls_encode_to_vec();
            assert!(la.is_ok() && lb.is_ok());
            let (la, lb) = (la.ok().unwrap(), lb.ok().unwrap());
            if bytes_eq(&la, &lb) {
                assert!(ia == ib && xa == xb && ca == cb);
            }
            core::mem::forget((ia, ib));
        })
    });
}

macro_rules! per_type_pair {
    ($(($ra:literal, $rb:literal): $two:ident, $order:ident, $inj:ident);* $(;)?) => { $(
        #[kani::proof]
        #[kani::stub(zeroize::optimization_barrier, noop_barrier)]
        #[kani::unwind(82)]
        fn $two() {
            psk_secret_2_case($ra, $rb);
        }

        #[kani::proof]
        #[kani::stub(zeroize::optimization_barrier, noop_barrier)]
        #[kani::unwind(82)]
        fn $order() {
            psk_order_case($ra, $rb);
        }

        #[kani::proof]
        #[kani::unwind(82)]
        fn $inj() {
            psk_label_injective_case($ra, $rb);
        }
    )* };
}

per_type_pair!(
    (false, false): c13_psk_secret_2_ext_ext_bounded_1, c18_psk_order_ext_ext_bounded_1, c18_psk_label_injective_ext_ext_bounded_1;
);

// DISABLED: the combinations with a resumption PSK were stopped after 6-13 minutes without a
// verdict (see above).
#[cfg(any())]
per_type_pair!(
    (false, true): c13_psk_secret_2_ext_res_bounded_1, c18_psk_order_ext_res_bounded_1, c18_psk_label_injective_ext_res_bounded_1;
    (true, false): c13_psk_secret_2_res_ext_bounded_1, c18_psk_order_res_ext_bounded_1, c18_psk_label_injective_res_ext_bounded_1;
    (true, true): c13_psk_secret_2_res_res_bounded_1, c18_psk_order_res_res_bounded_1, c18_psk_label_injective_res_res_bounded_1;
);

// a provider failure at any step is reported as CryptoProviderError and stops the chain
#[kani::proof]
#[kani::stub(zeroize::optimization_barrier, noop_barrier)]
#[kani::unwind(82)]
fn c13_psk_secret_provider_error() {
    for_each_below(3, |at| {
        let p = GhostProvider::failing_at(at as usize);
        let input = [small_input(false)];
        let r = PskSecret::calculate(&input, &p);
        assert!(is_provider_error(&r));
        assert!(p.calls() == at as usize + 1);
        core::mem::forget((r, input));
    });
}
