// Verification-only module (cfg(kani)) for C12: primitive layer of the wire codec.
// Contracts are stated at the harness (the functions are trait-impl methods on foreign /
// primitive types); every harness below is loop-free or bounded by a type width and runs
// over the full value domain, unless its name ends in `_bounded_<n>`.
use crate::{iter, byte_vec, Error, MlsDecode, MlsEncode, MlsSize, VarInt};
use alloc::vec::Vec;

fn any_bytes<const N: usize>() -> ([u8; N], usize) {
    let buf: [u8; N] = kani::any();
    let len: usize = kani::any();
    kani::assume(len <= N);
    (buf, len)
}

/// the generic codec triple on a byte string `input`:
///   decode(input) = Err  or  Ok(v) with encode(v) == consumed prefix, len(v) == |prefix|
fn triple<T: MlsDecode + MlsEncode + MlsSize>(input: &[u8]) -> Option<T> {
    let mut reader = input;
    match T::mls_decode(&mut reader) {
        Err(_) => None,
        Ok(v) => {
            let consumed = input.len() - reader.len();
            assert!(consumed <= input.len());
            let mut out = Vec::new();
            v.mls_encode(&mut out).unwrap();
            assert!(out.len() == consumed);
            assert!(v.mls_encoded_len() == consumed);
            let mut i = 0;
            while i < consumed {
                assert!(out[i] == input[i]);
                i += 1;
            }
            Some(v)
        }
    }
}

// ------------------------------------------------------------------ VarInt
#[kani::proof]
#[kani::unwind(6)]
fn c12_varint_roundtrip() {
    let n: u32 = kani::any();
    match VarInt::try_from(n) {
        Err(_) => assert!(n > (1 << 30) - 1),
        Ok(v) => {
            assert!(n <= (1 << 30) - 1);
            let mut out = Vec::new();
            v.mls_encode(&mut out).unwrap();
            // exact length, and the RFC 9000 s16 / RFC 9420 s2.1.2 size classes
            assert!(out.len() == v.mls_encoded_len());
            assert!(out.len() == if n < 64 { 1 } else if n < 16384 { 2 } else { 4 });
            // the two top bits announce the length
            assert!((out[0] >> 6) as usize == if n < 64 { 0 } else if n < 16384 { 1 } else { 2 });
            let mut reader = &out[..];
            let back = VarInt::mls_decode(&mut reader).unwrap();
            assert!(u32::from(back) == n);
            assert!(reader.is_empty());
        }
    }
}

#[kani::proof]
#[kani::unwind(6)]
fn c12_varint_any_bytes() {
    let (buf, len) = any_bytes::<5>();
    let input = &buf[..len];
    let r = triple::<VarInt>(input);
    // shortest form only, prefix 0b11 rejected, never reads beyond the input
    if len == 0 {
        assert!(r.is_none());
    } else {
        let prefix = buf[0] >> 6;
        if prefix == 3 {
            assert!(r.is_none());
        }
        if let Some(v) = r {
            let n = u32::from(v);
            assert!(n <= (1 << 30) - 1);
            assert!((prefix == 0) == (n < 64));
            assert!((prefix == 1) == (n >= 64 && n < 16384));
            assert!((prefix == 2) == (n >= 16384));
        }
    }
}

#[kani::proof]
fn c12_varint_try_from_usize() {
    let n: usize = kani::any();
    match VarInt::try_from(n) {
        Ok(v) => assert!(n <= (1 << 30) - 1 && u32::from(v) as usize == n),
        Err(e) => assert!(n > (1 << 30) - 1 && matches!(e, Error::VarIntOutOfRange)),
    }
}

// ------------------------------------------------------------------ fixed-width ints
macro_rules! stdint_harness {
    ($name_rt:ident, $name_any:ident, $t:ty, $n:literal, $n1:literal) => {
        #[kani::proof]
        #[kani::unwind(18)]
        fn $name_rt() {
            let x: $t = kani::any();
            let mut out = Vec::new();
            x.mls_encode(&mut out).unwrap();
            assert!(out.len() == $n && x.mls_encoded_len() == $n);
            // big-endian (network order)
            let mut acc: u128 = 0;
            let mut i = 0;
            while i < $n {
                acc = (acc << 8) | out[i] as u128;
                i += 1;
            }
            assert!(acc == x as u128);
            let mut reader = &out[..];
            assert!(<$t>::mls_decode(&mut reader).unwrap() == x);
            assert!(reader.is_empty());
        }

        #[kani::proof]
        #[kani::unwind(18)]
        fn $name_any() {
            let (buf, len) = any_bytes::<$n1>();
            let r = triple::<$t>(&buf[..len]);
            assert!(r.is_some() == (len >= $n));
        }
    };
}
stdint_harness!(c12_u8_roundtrip, c12_u8_any_bytes, u8, 1, 2);
stdint_harness!(c12_u16_roundtrip, c12_u16_any_bytes, u16, 2, 3);
stdint_harness!(c12_u32_roundtrip, c12_u32_any_bytes, u32, 4, 5);
stdint_harness!(c12_u64_roundtrip, c12_u64_any_bytes, u64, 8, 9);

// ------------------------------------------------------------------ bool / Option / arrays
#[kani::proof]
#[kani::unwind(4)]
fn c12_bool_roundtrip() {
    let b: bool = kani::any();
    let mut out = Vec::new();
    b.mls_encode(&mut out).unwrap();
    assert!(out.len() == 1 && b.mls_encoded_len() == 1);
    let mut reader = &out[..];
    assert!(bool::mls_decode(&mut reader).unwrap() == b);
    assert!(reader.is_empty());
}

#[kani::proof]
#[kani::unwind(4)]
fn c12_bool_any_bytes() {
    let (buf, len) = any_bytes::<2>();
    let _ = triple::<bool>(&buf[..len]);
}

#[kani::proof]
#[kani::unwind(8)]
fn c12_option_u8_any_bytes() {
    let (buf, len) = any_bytes::<3>();
    let r = triple::<Option<u8>>(&buf[..len]);
    if len >= 1 && buf[0] > 1 {
        assert!(r.is_none());
    }
}

#[kani::proof]
#[kani::unwind(8)]
fn c12_option_u32_any_bytes() {
    let (buf, len) = any_bytes::<6>();
    let r = triple::<Option<u32>>(&buf[..len]);
    if len >= 1 && buf[0] > 1 {
        assert!(r.is_none());
    }
    if len >= 1 && buf[0] == 0 {
        assert!(r == Some(None));
    }
}

#[kani::proof]
#[kani::unwind(8)]
fn c12_option_roundtrip() {
    let v: Option<u32> = kani::any();
    let mut out = Vec::new();
    v.mls_encode(&mut out).unwrap();
    assert!(out.len() == v.mls_encoded_len());
    let mut reader = &out[..];
    assert!(Option::<u32>::mls_decode(&mut reader).unwrap() == v);
    assert!(reader.is_empty());
}

#[kani::proof]
#[kani::unwind(8)]
fn c12_array_any_bytes() {
    let (buf, len) = any_bytes::<6>();
    let r = triple::<[u8; 4]>(&buf[..len]);
    assert!(r.is_some() == (len >= 4));
    let r0 = triple::<[u8; 0]>(&buf[..len]);
    assert!(r0.is_some());
}

// ------------------------------------------------------------------ collections
/// mls_decode_split_on_collection:
///   Ok((a, b)) ==> |a| == declared length, header ++ a ++ b == old(reader)
///   declared length beyond the input ==> Err  (no allocation is driven by the length field:
///   the function allocates nothing and only sub-slices the input)
/// The header logic is complete (every header byte pattern); the payload is symbolic in
/// length up to 70 bytes so that 1- and 2-byte headers with in-range and out-of-range
/// lengths are both covered; 4-byte headers always announce >= 16384 bytes > input.
#[kani::proof]
#[kani::unwind(6)]
fn c12_split_on_collection() {
    const N: usize = 70;
    let buf: [u8; N] = kani::any();
    let len: usize = kani::any();
    kani::assume(len <= N);
    let input = &buf[..len];
    let mut reader = input;
    match iter::mls_decode_split_on_collection(&mut reader) {
        Err(_) => {}
        Ok((a, b)) => {
            let header = len - a.len() - b.len();
            assert!(header == 1 || header == 2 || header == 4);
            // declared length == |a|
            let mut hr = input;
            let declared = u32::from(VarInt::mls_decode(&mut hr).unwrap()) as usize;
            assert!(declared == a.len());
            assert!(declared <= len - header);
            // a and b are exactly the remaining input, in order
            assert!(a.as_ptr() == input[header..].as_ptr());
            assert!(b.as_ptr() == input[header + declared..].as_ptr());
            assert!(header + a.len() + b.len() == len);
        }
    }
}

#[kani::proof]
#[kani::unwind(6)]
fn c12_split_on_collection_rejects_overlong() {
    const N: usize = 8;
    let buf: [u8; N] = kani::any();
    let len: usize = kani::any();
    kani::assume(len <= N);
    let input = &buf[..len];
    let mut hr = input;
    if let Ok(v) = VarInt::mls_decode(&mut hr) {
        let declared = u32::from(v) as usize;
        let mut reader = input;
        let r = iter::mls_decode_split_on_collection(&mut reader);
        assert!(r.is_ok() == (declared <= hr.len()));
    } else {
        let mut reader = input;
        assert!(iter::mls_decode_split_on_collection(&mut reader).is_err());
    }
}

/// byte_vec: round trip and exact length for payloads up to 6 bytes (bounded)
#[kani::proof]
#[kani::unwind(10)]
fn c12_byte_vec_roundtrip_bounded_6() {
    let (buf, len) = any_bytes::<6>();
    let data: Vec<u8> = buf[..len].to_vec();
    let mut out = Vec::new();
    byte_vec::mls_encode(&data, &mut out).unwrap();
    assert!(out.len() == byte_vec::mls_encoded_len(&data));
    assert!(out.len() == 1 + len);
    let mut reader = &out[..];
    let back: Vec<u8> = byte_vec::mls_decode(&mut reader).unwrap();
    assert!(back == data);
    assert!(reader.is_empty());
}

/// byte_vec decode of arbitrary bytes (<= 6): Err or re-encodes to the consumed prefix;
/// the returned vector is never longer than the input (allocation bounded by input size)
#[kani::proof]
#[kani::unwind(10)]
fn c12_byte_vec_any_bytes_bounded_6() {
    let (buf, len) = any_bytes::<6>();
    let input = &buf[..len];
    let mut reader = input;
    if let Ok(v) = byte_vec::mls_decode::<Vec<u8>>(&mut reader) {
        let consumed = len - reader.len();
        assert!(v.len() < consumed && consumed <= len);
        let mut out = Vec::new();
        byte_vec::mls_encode(&v, &mut out).unwrap();
        assert!(out.len() == consumed);
        let mut i = 0;
        while i < consumed {
            assert!(out[i] == input[i]);
            i += 1;
        }
    }
}

/// a decoder that makes no progress must not loop: zero-width element type
struct ZeroWidth;
impl MlsSize for ZeroWidth {
    fn mls_encoded_len(&self) -> usize {
        0
    }
}
impl MlsEncode for ZeroWidth {
    fn mls_encode(&self, _w: &mut Vec<u8>) -> Result<(), Error> {
        Ok(())
    }
}
impl MlsDecode for ZeroWidth {
    fn mls_decode(_r: &mut &[u8]) -> Result<Self, Error> {
        Ok(ZeroWidth)
    }
}

#[kani::proof]
#[kani::unwind(8)]
fn c12_vec_zero_progress_guard() {
    let (buf, len) = any_bytes::<4>();
    let input = &buf[..len];
    let mut reader = input;
    match Vec::<ZeroWidth>::mls_decode(&mut reader) {
        Ok(v) => assert!(v.is_empty()),          // only the empty collection decodes
        Err(_) => {}
    }
}

/// Vec<u16> any bytes (<= 6): triple + termination within the unwinding bound
#[kani::proof]
#[kani::unwind(10)]
fn c12_vec_u16_any_bytes_bounded_6() {
    let (buf, len) = any_bytes::<6>();
    let _ = triple::<Vec<u16>>(&buf[..len]);
}
