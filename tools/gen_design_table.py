#!/usr/bin/env python3
"""Regenerates the status table at the head of DESIGN.md section 10 from registry.json / baseline.json / na.json."""
import json, os, re
root = os.path.dirname(os.path.dirname(os.path.abspath(__file__)))
reg = json.load(open(os.path.join(root, 'registry.json')))['properties']
base = json.load(open(os.path.join(root, 'baseline.json')))
na = json.load(open(os.path.join(root, 'na.json')))
rows = ['| id  | check | engines | Verus units (contracts/<unit>.vc) | Kani harness groups | obligations in baseline | claim |',
        '|-----|-------|---------|-----------------------------------|---------------------|-------------------------|-------|']
for pid in sorted(reg):
    p = reg[pid]
    eng = ' + '.join(e for e, k in (('Verus', 'verus'), ('Kani', 'kani')) if p.get(k))
    kani = '-'
    if p.get('kani'):
        groups = p['kani'] if isinstance(p['kani'], list) else [p['kani']]
        parts = []
        for g in groups:
            hs = g.get('harnesses', []) if isinstance(g, dict) else []
            comp = sum(1 for h in hs if h.get('kind') == 'complete')
            parts.append('%s: %d harnesses (%d complete, %d bounded stand-ins)' % (g.get('package', '?') if isinstance(g, dict) else g, len(hs), comp, len(hs) - comp))
        kani = '; '.join(parts)
    note = (p.get('level_note') or '').split('.')[0]
    rows.append('| %s | `./check %s` | %s | %s | %s | %d | %s; %s |' % (
        pid, pid, eng, ', '.join('`%s`' % u for u in p.get('verus', [])) or '-', kani, len(base.get(pid, [])), p['level'], note))
nal = na if isinstance(na, list) else na.get('not_applicable', na)
ids = ', '.join(sorted(x['property_id'] if isinstance(x, dict) else x for x in nal))
rows.append('| %s | - | - | - | - | - | not applicable (section 4) |' % ids)
table = '\n'.join(rows)
path = os.path.join(root, 'DESIGN.md')
s = open(path).read()
a = s.index('<!-- status-table:begin -->') + len('<!-- status-table:begin -->')
b = s.index('<!-- status-table:end -->')
open(path, 'w').write(s[:a] + '\n' + table + '\n' + s[b:])
print('status table: %d rows' % (len(rows) - 2))
