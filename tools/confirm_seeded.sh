#!/bin/sh
# usage: confirm_seeded.sh <Cxx> <demo-test-filter-or---test name>   (maintenance)
# Confirms, in the agent's worktree /tmp/mut_<id>: (1) library change + demo: demo FAILS;
# (2) whole mls-rs lib + codec + core suites pass with the change (except known-failing tests);
# (3) change reverted: demo PASSES.   Writes /tmp/mut_<id>_out/confirm.log
ID="$1"; shift
P=${MUT_PREFIX:-mut_}; WT=/tmp/${P}$ID; OUT=/tmp/${P}${ID}_out
cd "$WT" || exit 3
export CARGO_TARGET_DIR=$WT/target
{
echo "### with change: demo"; cargo test -p mls-rs --offline "$@" 2>&1 | grep -E "^test |test result|panicked" | head -20
echo "### with change: suites"; cargo test -p mls-rs --lib --offline 2>&1 | grep -E "test result|FAILED" ; cargo test -p mls-rs-codec -p mls-rs-core --offline 2>&1 | grep -E "test result: F|FAILED" | head
git apply -R "$OUT/patch.diff" && echo "### reverted: demo" && cargo test -p mls-rs --offline "$@" 2>&1 | grep -E "^test |test result|panicked" | head -20
git apply "$OUT/patch.diff"
} > "$OUT/confirm.log" 2>&1
echo "done $ID"
