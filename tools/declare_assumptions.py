#!/usr/bin/env python3
"""Maintenance (manual, never run by a check): rewrite the `## assumptions:` line of a .vc
to the counts found by the scanner, after the author has reviewed the printed list."""
import sys, os, re
sys.path.insert(0, os.path.join(os.path.dirname(os.path.dirname(os.path.abspath(__file__))), 'engine'))
import scan_assumptions as sa
for p in sys.argv[1:]:
    decl, found, lines = sa.scan_vc(p)
    for l in lines: print(' ', l)
    new = '## assumptions: ' + ' '.join(f'{k}={v}' for k, v in found.items())
    s = open(p).read()
    if re.search(r'^## assumptions:.*$', s, re.M):
        s = re.sub(r'^## assumptions:.*$', new, s, count=1, flags=re.M)
    else:
        s = new + '\n' + s
    open(p, 'w').write(s)
    print(p, '->', new)
