#!/bin/sh
# usage: tools/run_mutant.sh <patch.diff> <Cxx> [Cyy ...]   (maintenance / self-test; not a registered check)
# Applies the patch to a scratch worktree of /repo HEAD and runs the named checks against it.
set -u
PATCH="$1"; shift
WT=/var/tmp/verif-mutant-$$
git -C /repo worktree add -q "$WT" HEAD || exit 3
( cd "$WT" && git apply "$PATCH" ) || { echo "PATCH DOES NOT APPLY"; git -C /repo worktree remove --force "$WT"; exit 3; }
for P in "$@"; do
  echo "=== $P against $(basename "$PATCH")"
  "$(dirname "$0")/../check" "$P" --repo "$WT" --tier "${TIER:-quick}"; echo "exit=$?"
done
git -C /repo worktree remove --force "$WT"
