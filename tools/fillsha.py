import sys,re,subprocess,json
unit=sys.argv[1]
vc=f'/verif/contracts/{unit}.vc'
for _ in range(20):
    out=subprocess.run(['python3','engine/verus_run.py',vc],cwd='/verif',capture_output=True,text=True).stdout
    d=json.loads(out)
    und=' '.join(d.get('undecided') or [])
    m=re.search(r'\(sha (\w+), reviewed 0\)',und)
    if not m:
        print(d['verdict']); print(json.dumps(d.get('undecided'),indent=1)[:3000]); print(json.dumps(d.get('failures'),indent=1)[:6000]); break
    sha=m.group(1)
    mr=re.search(r'/(.+)/ in',und) 
    lines=open(vc).read().split('\n')
    done=False
    # prefer the line that contains the regex text
    cand=[i for i,l in enumerate(lines) if 'sha=0' in l and mr and mr.group(1).replace('\\\\','\\') in l]
    if not cand: cand=[i for i,l in enumerate(lines) if 'sha=0' in l]
    i=cand[0]; lines[i]=lines[i].replace('sha=0','sha='+sha,1)
    open(vc,'w').write('\n'.join(lines)); print('filled',sha,'line',i+1)
