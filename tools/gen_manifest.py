#!/usr/bin/env python3
"""Generate MANIFEST.json from registry.json (claimed properties) + na.json (not applicable)."""
import json, os, subprocess
H = os.path.dirname(os.path.dirname(os.path.abspath(__file__)))
reg = json.load(open(os.path.join(H, 'registry.json')))
na = json.load(open(os.path.join(H, 'na.json')))
commits = subprocess.run(['git', '-C', '/repo', 'log', '--format=%H %s'], capture_output=True, text=True).stdout.split('\n')
hook_commits = [c.split()[0] for c in commits if c and 'verif hooks' in c]
checks = []
for pid, p in sorted(reg['properties'].items()):
    checks.append({
        'property_id': pid,
        'quick_cmd': f'./check {pid} --tier quick',
        'thorough_cmd': f'./check {pid} --tier thorough',
        'evidence_file': f'/verif/evidence/{pid}.json',
        'replay_cmd_template': f'./check {pid} --replay {{path}}',
        'engine': 'contracts',
        'level_claimed': {'category': p['level'], 'text': p['level_text'], 'design_ref': p.get('design_ref', 'DESIGN.md section 3')},
        'level_note': p['level_note'],
        'technique': p['technique'],
    })
m = {
    'version': 1,
    'setup_cmd': './setup.sh',
    'hooks': {
        'guard': 'cfg(kani)',
        'enable': 'cargo kani sets --cfg kani; contract attributes are #[cfg_attr(kani, kani::requires/ensures(..))] on the real functions, harness modules are #[cfg(kani)] mod verif_kani; (files supplied from /verif/kani/overlay into a scratch copy). Verus units need no hook: functions are extracted mechanically from the working tree.',
        'baseline_off_cmd': 'cd /repo && cargo test --workspace --no-fail-fast --offline',
        'source_commits': hook_commits,
        'add_only': True,
    },
    'engines': [
        {'name': 'contracts', 'path': '/verif/check', 'serves_properties': sorted(reg['properties']),
         'kind_free_text': 'contract-based deductive verification: Verus on mechanically extracted real function bodies (engine/extract.py, contracts/*.vc) and Kani function contracts in place on the real crate (kani/overlay, cfg(kani) hooks)'},
    ],
    'checks': checks,
    'not_applicable': na,
    'notes': 'Exit 2 from a check means UNDECIDED (lost anchor, construct outside the verifier subset, tool limit) and is never an alarm. See DESIGN.md.',
}
json.dump(m, open(os.path.join(H, 'MANIFEST.json'), 'w'), indent=1)
print('MANIFEST.json:', len(checks), 'checks,', len(na), 'not applicable')
