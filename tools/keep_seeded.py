#!/usr/bin/env python3
"""keep_seeded.py <Cxx> <name> <detected: VIOLATION|UNDECIDED|MISSED> "<check output summary>"
copies /tmp/mut_<Cxx>_out/{patch.diff,demo*,meta.json,confirm.log} to /verif/seeded/<name>/ and augments meta.json"""
import json, os, shutil, sys, glob
pid, name, det, summary = sys.argv[1:5]
src = f'/tmp/{os.environ.get("MUT_PREFIX", "mut_")}{pid}_out'
dst = os.path.join(os.path.dirname(os.path.dirname(os.path.abspath(__file__))), 'seeded', name)
os.makedirs(dst, exist_ok=True)
for f in glob.glob(src + '/patch.diff') + glob.glob(src + '/demo*') + glob.glob(src + '/confirm.log'):
    shutil.copy(f, dst)
meta = json.load(open(src + '/meta.json')) if os.path.exists(src + '/meta.json') else {}
meta['property'] = pid
meta['origin'] = 'independent sub-agent given only the property record and a scratch worktree of /repo'
meta['confirmed_by_me'] = 'tools/confirm_seeded.sh: demo fails with the change, mls-rs lib + codec + core suites pass with it (known-failing tests aside), demo passes with the change reverted (see confirm.log)'
meta['check_run'] = f'tools/run_mutant.sh seeded/{name}/patch.diff {pid}'
meta['check_result'] = det
meta['check_output'] = summary
json.dump(meta, open(dst + '/meta.json', 'w'), indent=1)
print('kept', dst)
