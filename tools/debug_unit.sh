#!/bin/sh
# usage: tools/debug_unit.sh <unit> [repo]   (maintenance) - extracts contracts/<unit>.vc from the repo (default /repo), runs Verus
# once and prints verdict, undecided reasons, failures and the function list; the generated file stays in /var/tmp/verif-dbg/<unit>.rs
cd "$(dirname "$0")/.." && python3 engine/verus_run.py contracts/${1:-kem}.vc ${2:-/repo} 2>&1 | python3 -c "
import sys,json
d=json.load(sys.stdin)
print(d['verdict']); print(json.dumps(d.get('undecided'),indent=1)[:4000]); print(json.dumps(d.get('failures'),indent=1)[:6000]); print([ (f.get('id'),f.get('status')) for f in d.get('functions',[])])"
