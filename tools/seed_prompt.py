import sys
ID, hint = sys.argv[1], sys.argv[2]
N = 20
print(f"""You are helping to evaluate a test/verification suite for the Rust crate mls-rs (an implementation of the IETF Messaging Layer Security protocol, RFC 9420). Your job: introduce ONE realistic, subtle bug into the library that breaks the semantic property described below, while the code still compiles and the existing test suite still passes.

Work ONLY inside the git worktree /tmp/mut{N}_{ID} (a scratch checkout of the repository; cargo works offline; use `CARGO_TARGET_DIR=/tmp/mut{N}_{ID}/target` and `--offline` for every cargo command; use at most 4 build jobs: `-j 4`). Do not read or touch anything under /verif or /repo. No network is available. Never use pkill/killall.

The property (JSON record) is in /tmp/mut{N}_{ID}_prop.json - read it first; the `anchors` section names the files and mechanisms involved.

Requirements for the change:
1. It is a change to library code (not tests) of the kind a maintainer could plausibly make by mistake or as a misguided optimisation/refactor: small (one to a few lines), natural-looking, no comments that give it away. Keep the surrounding code style: a plain statement stays a plain statement, a plain loop stays a plain loop - do NOT rewrite code into iterator chains or closures, and do not restructure more than the bug needs (a wrong index, bound, condition, argument, field, order of two statements, missing or extra call are the typical shapes).
2. It compiles, and the existing tests still pass: at least `cargo test -p mls-rs --lib --offline` (one test, `group::interop_test_vectors::passive_client::interop_passive_client`, already fails on the unchanged tree; ignore it), `cargo test -p mls-rs --offline --features test_util --test client_tests`, and, if you touch them, `cargo test -p mls-rs-codec -p mls-rs-core --offline`. If your first idea breaks an existing test, pick another.
3. It needs something specific to manifest (a particular input, size, order, history, configuration ...) - say exactly what.
4. It breaks a clause of the property statement - say which clause. {hint}
5. Provide a DEMONSTRATION: a new test (either an integration test file under mls-rs/tests/ using only the public API, or a #[test] added to an existing `mod tests` in the crate) that FAILS with your change and PASSES without it. Run it both ways and report the outputs.

Deliverables, written to /tmp/mut{N}_{ID}_out/ (create the directory):
- patch.diff : `git diff` of the library change ONLY (no tests), applicable with `git apply` to the unchanged tree
- demo.diff (or demo.rs plus where it goes) : the demonstration test
- meta.json : {{"property": "{ID}", "clause_broken": ..., "change_summary": ..., "what_it_needs_to_manifest": ..., "files_changed": [...], "demo": {{"command": ...}}, "commands_run": [...], "tests_pass_with_change": true/false, "demo_fails_with_change": true/false, "demo_passes_without_change": true/false}}

SIDE REMARKS (important): while you read the code, if you notice anything in the UNCHANGED library that looks like a genuine defect with respect to this property - a history, input or configuration for which the unchanged code already violates a clause of the statement, or panics - try to reproduce it with a scratch test on the unchanged code (delete the scratch test afterwards) and report it in your final answer under "Side remarks on the unchanged library", with the exact reproduction (calls, inputs, observed vs expected). Only report what you reproduced or can argue precisely from the code.

Leave the worktree with the change applied and the demo present (uncommitted). Do not commit anything. In your final answer summarise the change, the clause, what it needs to manifest, the exact demo command, and the test results, then the side remarks.""")
